// C11 (and part of C18) — the CTAP2 command-byte table.
//
// The whole of /repo/src/operation.rs is pasted below verbatim on every run (minus `use`
// lines, doc comments, cfg_attr(arbitrary) lines and non-core derives).  The contract is
// attached to the real `impl From<Operation> for u8`, `impl TryFrom<u8> for Operation` and
// `impl TryFrom<u8> for VendorOperation` through vstd's FromSpecImpl / TryFromSpecImpl, i.e.
// each of those exec functions gets the postcondition  result == <spec table>(argument).
//
// The spec tables are written from the CTAP 2.1 command table (§6, "Authenticator API") and
// the property statement, NOT from the code:
//   0x01 MakeCredential  0x02 GetAssertion  0x04 GetInfo  0x06 ClientPIN  0x07 Reset
//   0x08 GetNextAssertion  0x09 BioEnrollment  0x0A CredentialManagement  0x0B Selection
//   0x0C LargeBlobs  0x0D Config  0x40 prototype BioEnrollment  0x41 prototype CredentialManagement
//   vendor range 0x40..=0x7F minus the two codes FIDO reassigned (0x40, 0x41).
use vstd::prelude::*;
use vstd::std_specs::convert::*;

verus! {

//@extract-file src/operation.rs

// ----------------------------------------------------------------------------- contract text

//@include inc/operation_contract.rs

// ------------------------------------------------------------------------ property lemmas

/// every recognised byte converts to an operation that converts back to the same byte
pub proof fn ob_C11_roundtrip_byte(b: u8)
    ensures spec_decode(b) is Ok ==> spec_encode(spec_decode(b)->Ok_0) == b,
{
    broadcast use VendorOperation::code_mk;
}

/// no two bytes share an operation
pub proof fn ob_C11_injective(b1: u8, b2: u8)
    requires spec_decode(b1) is Ok, spec_decode(b2) is Ok, spec_decode(b1) == spec_decode(b2),
    ensures b1 == b2,
{
    ob_C11_roundtrip_byte(b1);
    ob_C11_roundtrip_byte(b2);
}

/// exactly the assigned codes + the vendor range minus {0x40, 0x41} are recognised
pub proof fn ob_C11_recognised_set(b: u8)
    ensures
        spec_decode(b) is Ok <==> (b == 1 || b == 2 || b == 4 || (6 <= b <= 0x0D) || (0x40 <= b <= 0x7F)),
        (spec_decode(b) is Ok && spec_decode(b)->Ok_0 is Vendor) <==> (0x42 <= b <= 0x7F),
        b == 0x40 ==> spec_decode(b) == Ok::<Operation, ()>(Operation::PreviewBioEnrollment),
        b == 0x41 ==> spec_decode(b) == Ok::<Operation, ()>(Operation::PreviewCredentialManagement),
{
}

/// every operation the decoder can produce re-encodes and decodes to itself
pub proof fn ob_C11_roundtrip_op(b: u8)
    ensures spec_decode(b) is Ok ==> spec_decode(spec_encode(spec_decode(b)->Ok_0)) == spec_decode(b),
{
    ob_C11_roundtrip_byte(b);
}

/// The exec functions really are the tables: a client of the real conversions (only their
/// contracts are visible here) gets the round trip.
pub fn ob_C11_exec_roundtrip(b: u8) -> (r: Option<u8>)
    ensures
        r is Some <==> spec_decode(b) is Ok,
        r is Some ==> r->Some_0 == b,
{
    let op = Operation::try_from(b);
    match op {
        Ok(op) => {
            proof { ob_C11_roundtrip_byte(b); }
            let back: u8 = op.into();
            Some(back)
        }
        Err(_) => None,
    }
}

} // verus!

fn main() {}
