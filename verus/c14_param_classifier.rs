// C14 — the element classifier of the pubKeyCredParams filter, for type strings of ANY length (<= 32 by the capacity) and every i32 algorithm.
//
// Pasted verbatim from /repo on every run:
//   src/webauthn.rs   pub struct PublicKeyCredentialParameters, pub struct KnownPublicKeyCredentialParameters, pub enum UnknownPKCredentialParam,
//                     pub const ES256 / ED_DSA / COUNT_KNOWN_ALGS / KNOWN_ALGS,
//                     impl TryFrom<PublicKeyCredentialParameters> for KnownPublicKeyCredentialParameters
// The unit c14_filter_loops proves the filtering loop against an *uninterpreted* classifier; this unit pins the classifier itself to the property's
// words: an entry is kept iff its type is "public-key" and its algorithm is ES256 (-7) or EdDSA (-8); the algorithm is carried over unchanged;
// a wrong type is reported as UnknownType, a right type with another algorithm as UnknownAlg (neither is ever an error of the list).
// Assumed: heapless `impl PartialEq<&str> for String<N>` compares contents (ghost `String<N>`), core `<[T]>::contains` is membership by `==`.
use vstd::prelude::*;
use vstd::std_specs::convert::*;
use vstd::std_specs::cmp::*;

verus! {

/// heapless 0.7 `String<N>` (ghost contents) and its `PartialEq<&str>` (`str::eq(&self[..], &other[..])`)
pub struct String<const N: usize> { v: Ghost<Seq<char>> }
impl<const N: usize> String<N> { pub closed spec fn chars(&self) -> Seq<char> { self.v@ } }
impl<const N: usize> PartialEq<&str> for String<N> {
    #[verifier::external_body]
    fn eq(&self, other: &&str) -> (r: bool) { unimplemented!() }
}
impl<const N: usize> PartialEqSpecImpl<&str> for String<N> {
    open spec fn obeys_eq_spec() -> bool { true }
    open spec fn eq_spec(&self, other: &&str) -> bool { self.chars() == other@ }
}
/// core `<[T]>::contains`
pub assume_specification<T: PartialEq>[ <[T]>::contains ](s: &[T], x: &T) -> (r: bool)
    ensures T::obeys_eq_spec() ==> r == (exists|i: int| 0 <= i < s@.len() && #[trigger] vstd::std_specs::cmp::PartialEqSpec::eq_spec(&s@[i], x));

//@extract src/webauthn.rs :: ^pub struct PublicKeyCredentialParameters :: noderive
//@extract src/webauthn.rs :: ^pub struct KnownPublicKeyCredentialParameters :: noderive
//@extract src/webauthn.rs :: ^pub enum UnknownPKCredentialParam
//@extract src/webauthn.rs :: ^pub const ES256
//@extract src/webauthn.rs :: ^pub const ED_DSA
//@extract src/webauthn.rs :: ^pub const COUNT_KNOWN_ALGS
//@extract src/webauthn.rs :: ^pub const KNOWN_ALGS

/*@contract classify
        ensures
            value.key_type.chars() != "public-key"@ ==> r is Err && r->Err_0 is UnknownType,
            value.key_type.chars() == "public-key"@ && (value.alg == -7 || value.alg == -8) ==> r is Ok && r->Ok_0.alg == value.alg,
            value.key_type.chars() == "public-key"@ && !(value.alg == -7 || value.alg == -8) ==> r is Err && r->Err_0 is UnknownAlg,
@*/
/*@inject classify_hints
        proof {
            assert(KNOWN_ALGS@[0] == -7i32 && KNOWN_ALGS@[1] == -8i32);
            assert(vstd::std_specs::cmp::PartialEqSpec::eq_spec(&KNOWN_ALGS@[0], &-7i32));
            assert(vstd::std_specs::cmp::PartialEqSpec::eq_spec(&KNOWN_ALGS@[1], &-8i32));
        }
@*/
//@extract src/webauthn.rs :: ^impl TryFrom<PublicKeyCredentialParameters> for KnownPublicKeyCredentialParameters :: contracts=try_from:classify :: proof-top=try_from:classify_hints
impl TryFromSpecImpl<PublicKeyCredentialParameters> for KnownPublicKeyCredentialParameters {
    open spec fn obeys_try_from_spec() -> bool { false }
    open spec fn try_from_spec(v: PublicKeyCredentialParameters) -> Result<Self, UnknownPKCredentialParam> { arbitrary() }
}

} // verus!
fn main() {}
