// C19 — the two length-clamping generators of src/arbitrary.rs that end in an `unwrap()` / an unchecked UTF-8 conversion, for input
// byte strings of ANY length and every capacity N.
//
// Pasted verbatim on every run:
//   /repo src/arbitrary.rs   fn arbitrary_str    (text members: clamp to N, keep the well-formed prefix, from_utf8_unchecked, try_into().unwrap())
//                            fn arbitrary_bytes  (byte members: clamp to N, Bytes::from_slice(..).unwrap())
//                            fn arbitrary_key    (two arbitrary_bytes)
// Scaffolding (assumed, listed in the evidence): a ghost model of `arbitrary::Unstructured` (the bytes not yet consumed) with the contracts of
// `bytes` / `peek_bytes` read off the arbitrary 1.x sources, `usize::arbitrary` = any value, the contracts of core `from_utf8`,
// `Utf8Error::valid_up_to`, `from_utf8_unchecked` (precondition: well-formed UTF-8 — so the `unsafe` call is a proof obligation), and the
// panicking conversions of heapless 0.7 / heapless-bytes (`<&str as TryInto<String<N>>>::try_into(s).unwrap()` panics for s longer than N —
// the blanket TryFrom over the panicking From, the very defect fixed in webauthn.rs — and `Bytes::from_slice` fails beyond N).
// What is proved: generation either reports an error or yields a value within its capacity whose text is well-formed UTF-8; no unwrap can
// panic and from_utf8_unchecked is only ever given well-formed bytes — for every input, not the bounded lengths of the Kani harnesses.
use vstd::prelude::*;
use vstd::string::StringSliceAdditionalSpecFns;

verus! {
pub open spec fn str_bytes(s: &str) -> Seq<u8> { s.spec_bytes() }
// ---- core: UTF-8 validation ---------------------------------------------------------------------
pub uninterp spec fn wf_utf8(b: Seq<u8>) -> bool;
#[verifier::external_type_specification]
#[verifier::external_body]
pub struct ExUtf8Error(core::str::Utf8Error);
pub uninterp spec fn spec_valid_up_to(e: &core::str::Utf8Error) -> usize;
pub assume_specification[ core::str::from_utf8 ](v: &[u8]) -> (r: core::result::Result<&str, core::str::Utf8Error>)
    ensures match r {
        Ok(s) => str_bytes(s) == v@ && wf_utf8(v@),
        Err(e) => spec_valid_up_to(&e) <= v@.len()
            // the first valid_up_to bytes are well-formed (stated for every sequence equal to that prefix, so that no extensionality hint is needed at the use)
            && forall|w: Seq<u8>| (w.len() == spec_valid_up_to(&e) && forall|j: int| 0 <= j < w.len() ==> w[j] == v@[j]) ==> #[trigger] wf_utf8(w),
    };
pub assume_specification[ core::str::Utf8Error::valid_up_to ](e: &core::str::Utf8Error) -> (r: usize)
    ensures r == spec_valid_up_to(e);
pub assume_specification[ core::str::from_utf8_unchecked ](v: &[u8]) -> (r: &str)
    requires wf_utf8(v@),
    ensures str_bytes(r) == v@;

// ---- the `arbitrary` crate -----------------------------------------------------------------------
pub mod arbitrary {
    use vstd::prelude::*;
    verus! {
    pub enum Error { EmptyChoose, NotEnoughData, IncorrectFormat }
    pub type Result<T, E = Error> = core::result::Result<T, E>;
    #[verifier::external_body]
    pub struct Unstructured<'a> { data: &'a [u8] }
    impl<'a> Unstructured<'a> {
        /// ghost: the bytes not yet consumed
        pub uninterp spec fn rest(&self) -> Seq<u8>;
        #[verifier::external_body]
        pub fn bytes(&mut self, size: usize) -> (r: Result<&'a [u8]>)
            ensures
                size <= old(self).rest().len() ==> r is Ok && r->Ok_0@ == old(self).rest().subrange(0, size as int)
                    && final(self).rest() == old(self).rest().subrange(size as int, old(self).rest().len() as int),
                size > old(self).rest().len() ==> r is Err && final(self).rest() == old(self).rest(),
        { unimplemented!() }
        #[verifier::external_body]
        pub fn peek_bytes(&self, size: usize) -> (r: Option<&'a [u8]>)
            ensures
                size <= self.rest().len() ==> r is Some && r->Some_0@ == self.rest().subrange(0, size as int),
                size > self.rest().len() ==> r is None,
        { unimplemented!() }
    }
    pub trait Arbitrary<'a>: Sized {
        fn arbitrary(u: &mut Unstructured<'a>) -> Result<Self>;
    }
    impl<'a> Arbitrary<'a> for usize {
        /// any value at all (the real impl reads up to 8 bytes); nothing is promised about it
        #[verifier::external_body]
        fn arbitrary(u: &mut Unstructured<'a>) -> (r: Result<Self>) { unimplemented!() }
    }
    }
}
use crate::arbitrary::{Arbitrary, Error, Result, Unstructured};

pub struct String<const N: usize> { v: Ghost<Seq<u8>> }
impl<const N: usize> String<N> { pub closed spec fn bytes(&self) -> Seq<u8> { self.v@ } }
/// heapless 0.7: `<&str as TryInto<String<N>>>::try_into(s).unwrap()` is the blanket TryFrom over `From<&str> for String<N>`, which PANICS when s is longer than N
#[verifier::external_body]
fn string_try_into_unwrap__<const N: usize>(s: &str) -> (r: String<N>)
    requires str_bytes(s).len() <= N,
    ensures r.bytes() == str_bytes(s),
{ unimplemented!() }


/// heapless-bytes 0.3 `Bytes<N>` (ghost contents) and `Bytes::from_slice`: Err beyond the capacity, a verbatim copy otherwise
pub struct Bytes<const N: usize> { v: Ghost<Seq<u8>> }
impl<const N: usize> Bytes<N> {
    pub closed spec fn bytes(&self) -> Seq<u8> { self.v@ }
    #[verifier::external_body]
    pub fn from_slice(slice: &[u8]) -> (r: core::result::Result<Self, ()>)
        ensures
            slice@.len() <= N ==> r is Ok && r->Ok_0.bytes() == slice@,
            slice@.len() > N ==> r is Err,
    { unimplemented!() }
}
/// cosey
pub struct EcdhEsHkdf256PublicKey { pub x: Bytes<32>, pub y: Bytes<32> }

/*@contract arbitrary_str
        ensures r is Ok ==> r->Ok_0.bytes().len() <= N && wf_utf8(r->Ok_0.bytes()),
@*/
//@extract src/arbitrary.rs :: ^fn arbitrary_str<const N: usize> :: contracts=arbitrary_str:arbitrary_str :: str-try-into-unwrap

/*@contract arbitrary_bytes
        ensures r is Ok ==> r->Ok_0.bytes().len() <= N,
@*/
//@extract src/arbitrary.rs :: ^fn arbitrary_bytes<const N: usize> :: contracts=arbitrary_bytes:arbitrary_bytes

/*@contract arbitrary_key
        ensures r is Ok ==> r->Ok_0.x.bytes().len() <= 32 && r->Ok_0.y.bytes().len() <= 32,
@*/
//@extract src/arbitrary.rs :: ^fn arbitrary_key :: contracts=arbitrary_key:arbitrary_key

} // verus!
fn main() {}
