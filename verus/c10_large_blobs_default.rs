// C10 — "an authenticator that does not implement large blobs answers InvalidCommand".
//
// The default method body `fn large_blobs(&mut self, request) -> Result<..>` is cut verbatim
// out of `pub trait Authenticator` in src/ctap2.rs and verified on its own inside a scaffolding
// trait that carries the same ghost call log as unit c10_dispatch_ctap2: it must return
// Err(InvalidCommand) and make no handler call (log unchanged).
use vstd::prelude::*;

verus! {

pub mod serde_bytes { use vstd::prelude::*; verus! {
    #[verifier::external_body] pub struct Bytes { _p: () } } }
pub mod large_blobs {
    use vstd::prelude::*;
    use crate::serde_bytes;
    verus! {
//@extract src/ctap2/large_blobs.rs :: ^pub struct Request<'a> :: noderive
    #[verifier::external_body] pub struct Response { _p: () }
    }
}

pub type Result<T> = core::result::Result<T, Error>;

//@extract src/ctap2.rs :: ^pub enum Error\b

/*@contract large_blobs
        ensures
            r == Err::<large_blobs::Response, Error>(Error::InvalidCommand),
            final(self).log() == old(self).log(),
@*/
pub trait AuthenticatorDefaultLargeBlobs {
    /// ghost: the number of handler calls made so far
    spec fn log(&self) -> nat;

//@extract src/ctap2.rs :: ^    fn large_blobs\( :: contracts=large_blobs
}

pub proof fn ob_C10_invalid_command_is_0x01()
    ensures Error::InvalidCommand as u8 == 0x01,
{
}

} // verus!
fn main() {}
