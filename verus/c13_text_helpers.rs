// C13 / C15 / C04 — the two lossy text helpers of src/webauthn.rs, for texts of ANY length and every capacity L.
//
// Pasted verbatim on every run:
//   /repo src/webauthn.rs        fn deserialize_from_str_and_skip_if_too_long   (user.icon)
//                                fn deserialize_from_str_and_truncate           (rp.name, user.name, user.displayName)
//   heapless 0.7 src/string.rs   pub struct String<N>, String::new, String::push_str, <String<N> as FromStr>::from_str
// Scaffolding: a serde `Deserializer` with a ghost model of the one CBOR item it holds (null / a text / anything else,
// and it may fail), the `Deserialize` contracts of `&str` and `Option<&str>` over that model (serde's impls: a text is
// borrowed verbatim, null is None, any other item is an error), the assumed contract of heapless
// `Vec::extend_from_slice`, `str::parse` = `FromStr::from_str`, and the *contract* of `truncate` (not its body: the
// body, `floor_char_boundary` and the char-boundary predicate are proved against this contract by the Kani harnesses
// c13_k_truncate_*, c13_k_floor_char_boundary_*).
use vstd::prelude::*;
use vstd::string::StringSliceAdditionalSpecFns;

verus! {

//@include inc/heapless_vec_generic.rs
pub use crate::heapless::Vec;

pub open spec fn str_bytes(s: &str) -> Seq<u8> { s.spec_bytes() }

// ---- core glue ---------------------------------------------------------------------------
#[verifier::external_trait_specification]
pub trait ExFromStr: Sized {
    type ExternalTraitSpecificationFor: core::str::FromStr;
    type Err;
    fn from_str(s: &str) -> core::result::Result<Self, Self::Err>;
}
/// core: `str::parse::<F>()` is `F::from_str(self)`
pub assume_specification<F: core::str::FromStr>[ str::parse::<F> ](s: &str) -> (r: core::result::Result<F, F::Err>)
    ensures call_ensures(<F as core::str::FromStr>::from_str, (s,), r);

// ---- heapless::String<N>: the real code ------------------------------------------------------
//@extract dep:heapless/src/string.rs :: ^pub struct String<const N: usize>
impl<const N: usize> String<N> {
    pub closed spec fn bytes(&self) -> Seq<u8> { self.vec@ }
//@extract dep:heapless/src/string.rs :: ^    pub const fn new\(\) :: contracts=new:string_new
//@extract dep:heapless/src/string.rs :: ^    pub fn push_str :: contracts=push_str:string_push_str
}
/*@contract string_new
        ensures r.bytes() == Seq::<u8>::empty(),
@*/
/*@contract string_push_str
        ensures
            old(self).bytes().len() + str_bytes(string).len() <= N ==> r is Ok && final(self).bytes() == old(self).bytes() + str_bytes(string),
            old(self).bytes().len() + str_bytes(string).len() > N ==> r is Err && final(self).bytes() == old(self).bytes(),
@*/
/*@contract string_from_str
        ensures
            str_bytes(s).len() <= N ==> r is Ok && r->Ok_0.bytes() == str_bytes(s),
            str_bytes(s).len() > N ==> r is Err,
@*/
impl<const N: usize> core::str::FromStr for String<N> {
    type Err = ();
//@extract dep:heapless/src/string.rs :: ^    fn from_str\(s: &str\) :: contracts=from_str:string_from_str
}

// ---- serde scaffolding -------------------------------------------------------------------
pub mod serde {
    use vstd::prelude::*;
    verus! {
    /// ghost model of the one item a deserializer holds
    pub enum Item<'de> { Null, Text(&'de str), Other }
    pub trait Deserializer<'de>: Sized {
        type Error;
        spec fn item(&self) -> Item<'de>;
        /// ghost: decoding the item itself cannot fail (well-formed input)
        spec fn infallible(&self) -> bool;
    }
    pub trait Deserialize<'de>: Sized {
        fn deserialize<D: Deserializer<'de>>(deserializer: D) -> core::result::Result<Self, D::Error>;
    }
    /// serde `impl Deserialize for &'de str`: deserialize_str + a visitor that accepts only a borrowed text
    impl<'de> Deserialize<'de> for &'de str {
        #[verifier::external_body]
        fn deserialize<D: Deserializer<'de>>(deserializer: D) -> (r: core::result::Result<Self, D::Error>)
            ensures
                r is Ok ==> deserializer.item() == Item::Text(r->Ok_0),
                deserializer.infallible() && deserializer.item() is Text ==> r is Ok,
        { unimplemented!() }
    }
    /// serde `impl Deserialize for Option<T>`: deserialize_option; null => None, anything else => Some(T::deserialize)
    impl<'de> Deserialize<'de> for Option<&'de str> {
        #[verifier::external_body]
        fn deserialize<D: Deserializer<'de>>(deserializer: D) -> (r: core::result::Result<Self, D::Error>)
            ensures
                r is Ok ==> (match r->Ok_0 {
                    None => deserializer.item() is Null,
                    Some(s) => deserializer.item() == Item::Text(s),
                }),
                deserializer.infallible() && !(deserializer.item() is Other) ==> r is Ok,
        { unimplemented!() }
    }
    }
}
use crate::serde::{Deserialize, Item};

// ---- the contract of `truncate` ---------------------------------------------------------------
/// "k is a character boundary of the text": by the UTF-8 encoding table (a byte that starts a character is not 10xxxxxx)
pub open spec fn boundary(b: Seq<u8>, k: int) -> bool {
    k == 0 || k == b.len() || (0 < k < b.len() && (b[k] & 0xC0u8) != 0x80u8)
}
/// C13: the result is a prefix of the text, ends on a character boundary, is at most L bytes, and is the longest such
/// prefix (so a text that fits is kept whole)
pub open spec fn truncated_to(text: Seq<u8>, out: Seq<u8>, limit: int) -> bool {
    &&& out.len() <= limit
    &&& out.len() <= text.len()
    &&& out == text.subrange(0, out.len() as int)
    &&& boundary(text, out.len() as int)
    &&& forall|k: int| out.len() < k <= limit && k <= text.len() ==> !boundary(text, k)
}
#[verifier::external_body]
fn truncate<const L: usize>(s: &str) -> (r: String<L>)
    ensures truncated_to(str_bytes(s), r.bytes(), L as int),
{ unimplemented!() }

// ---- the two helpers ------------------------------------------------------------------------
/*@contract skip_if_too_long
        ensures
            // C13: decoding never fails because of the text's length
            deserializer.infallible() && deserializer.item() is Text ==> r is Ok,
            // ... a text of at most L BYTES is kept verbatim, a longer one is reported absent
            r is Ok ==> deserializer.item() is Text && (match r->Ok_0 {
                Some(kept) => str_bytes(deserializer.item()->Text_0).len() <= L && kept.bytes() == str_bytes(deserializer.item()->Text_0),
                None => str_bytes(deserializer.item()->Text_0).len() > L,
            }),
@*/
//@extract src/webauthn.rs :: ^fn deserialize_from_str_and_skip_if_too_long :: contracts=deserialize_from_str_and_skip_if_too_long:skip_if_too_long :: strip=info_now

/*@contract and_truncate
        ensures
            deserializer.infallible() && !(deserializer.item() is Other) ==> r is Ok,
            // C15: absent stays absent, present stays present (the empty text included)
            r is Ok ==> (match r->Ok_0 {
                None => deserializer.item() is Null,
                // C13: ... and is the longest prefix of at most L bytes that ends on a character boundary
                Some(t) => deserializer.item() is Text && truncated_to(str_bytes(deserializer.item()->Text_0), t.bytes(), L as int),
            }),
@*/
//@extract src/webauthn.rs :: ^fn deserialize_from_str_and_truncate :: contracts=deserialize_from_str_and_truncate:and_truncate

/// consequence spelled out (the property's own words): a name that fits its capacity is decoded unchanged
proof fn ob_C13_fitting_text_unchanged(text: Seq<u8>, out: Seq<u8>, limit: int)
    requires truncated_to(text, out, limit), text.len() <= limit,
    ensures out == text,
{
    assert(boundary(text, text.len() as int));
    if out.len() < text.len() { assert(!boundary(text, text.len() as int)); }
    assert(out == text.subrange(0, text.len() as int));
    assert(text.subrange(0, text.len() as int) == text);
}

} // verus!
fn main() {}
