// C13 / C15 / C04 — the two lossy text helpers of src/webauthn.rs, for texts of ANY length and every capacity L.
//
// Pasted verbatim on every run:
//   /repo src/webauthn.rs        fn deserialize_from_str_and_skip_if_too_long   (user.icon)
//                                fn deserialize_from_str_and_truncate           (rp.name, user.name, user.displayName)
//                                pub struct Icon, impl Deserialize for Icon     (rp.icon: any text accepted and discarded)
//   heapless 0.7 src/string.rs   pub struct String<N>, String::new, String::push_str, <String<N> as FromStr>::from_str
// Scaffolding: a serde `Deserializer` with a ghost model of the one CBOR item it holds (null / a text / anything else,
// and it may fail), the `Deserialize` contracts of `&str` and `Option<&str>` over that model (serde's impls: a text is
// borrowed verbatim, null is None, any other item is an error), the assumed contract of heapless
// `Vec::extend_from_slice`, `str::parse` = `FromStr::from_str`.
//                                fn truncate, fn floor_char_boundary, const fn is_utf8_char_boundary — the real bodies, proved against the
//                                C13 contract `truncated_to` for texts of ANY length and every capacity/index, under two stated axioms
//                                about UTF-8 itself (A-UTF8) and three trusted wrappers for core (`rposition`, `unwrap_unchecked`, `&s[..k]`);
//                                the unsafe `unwrap_unchecked` and the panicking `&s[..split]` / `.unwrap()` become proof obligations.
use vstd::prelude::*;
use vstd::string::StringSliceAdditionalSpecFns;

verus! {

//@include inc/heapless_vec_generic.rs
pub use crate::heapless::Vec;

pub open spec fn str_bytes(s: &str) -> Seq<u8> { s.spec_bytes() }

// ---- core glue ---------------------------------------------------------------------------
#[verifier::external_trait_specification]
pub trait ExFromStr: Sized {
    type ExternalTraitSpecificationFor: core::str::FromStr;
    type Err;
    fn from_str(s: &str) -> core::result::Result<Self, Self::Err>;
}
/// core: `str::parse::<F>()` is `F::from_str(self)`
pub assume_specification<F: core::str::FromStr>[ str::parse::<F> ](s: &str) -> (r: core::result::Result<F, F::Err>)
    ensures call_ensures(<F as core::str::FromStr>::from_str, (s,), r);

// ---- heapless::String<N>: the real code ------------------------------------------------------
//@extract dep:heapless/src/string.rs :: ^pub struct String<const N: usize>
impl<const N: usize> String<N> {
    pub closed spec fn bytes(&self) -> Seq<u8> { self.vec@ }
//@extract dep:heapless/src/string.rs :: ^    pub const fn new\(\) :: contracts=new:string_new
//@extract dep:heapless/src/string.rs :: ^    pub fn push_str :: contracts=push_str:string_push_str
}
/*@contract string_new
        ensures r.bytes() == Seq::<u8>::empty(),
@*/
/*@contract string_push_str
        ensures
            old(self).bytes().len() + str_bytes(string).len() <= N ==> r is Ok && final(self).bytes() == old(self).bytes() + str_bytes(string),
            old(self).bytes().len() + str_bytes(string).len() > N ==> r is Err && final(self).bytes() == old(self).bytes(),
@*/
/*@contract string_from_str
        ensures
            str_bytes(s).len() <= N ==> r is Ok && r->Ok_0.bytes() == str_bytes(s),
            str_bytes(s).len() > N ==> r is Err,
@*/
impl<const N: usize> core::str::FromStr for String<N> {
    type Err = ();
//@extract dep:heapless/src/string.rs :: ^    fn from_str\(s: &str\) :: contracts=from_str:string_from_str
}

// ---- serde scaffolding -------------------------------------------------------------------
pub mod serde {
    use vstd::prelude::*;
    verus! {
    /// ghost model of the one item a deserializer holds
    pub enum Item<'de> { Null, Text(&'de str), Other }
    pub trait Deserializer<'de>: Sized {
        type Error;
        spec fn item(&self) -> Item<'de>;
        /// ghost: decoding the item itself cannot fail (well-formed input)
        spec fn infallible(&self) -> bool;
    }
    pub trait Deserialize<'de>: Sized {
        fn deserialize<D: Deserializer<'de>>(deserializer: D) -> core::result::Result<Self, D::Error>;
    }
    /// serde `impl Deserialize for &'de str`: deserialize_str + a visitor that accepts only a borrowed text
    impl<'de> Deserialize<'de> for &'de str {
        #[verifier::external_body]
        fn deserialize<D: Deserializer<'de>>(deserializer: D) -> (r: core::result::Result<Self, D::Error>)
            ensures
                r is Ok ==> deserializer.item() == Item::Text(r->Ok_0),
                deserializer.infallible() && deserializer.item() is Text ==> r is Ok,
        { unimplemented!() }
    }
    /// serde `impl Deserialize for Option<T>`: deserialize_option; null => None, anything else => Some(T::deserialize)
    impl<'de> Deserialize<'de> for Option<&'de str> {
        #[verifier::external_body]
        fn deserialize<D: Deserializer<'de>>(deserializer: D) -> (r: core::result::Result<Self, D::Error>)
            ensures
                r is Ok ==> (match r->Ok_0 {
                    None => deserializer.item() is Null,
                    Some(s) => deserializer.item() == Item::Text(s),
                }),
                deserializer.infallible() && !(deserializer.item() is Other) ==> r is Ok,
        { unimplemented!() }
    }
    }
}
use crate::serde::{Deserialize, Deserializer, Item};

// ---- the contract of `truncate` ---------------------------------------------------------------
/// "k is a character boundary of the text": by the UTF-8 encoding table (a byte that starts a character is not 10xxxxxx)
pub open spec fn boundary(b: Seq<u8>, k: int) -> bool {
    k == 0 || k == b.len() || (0 < k < b.len() && (b[k] & 0xC0u8) != 0x80u8)
}
/// C13: the result is a prefix of the text, ends on a character boundary, is at most L bytes, and is the longest such
/// prefix (so a text that fits is kept whole)
pub open spec fn truncated_to(text: Seq<u8>, out: Seq<u8>, limit: int) -> bool {
    &&& out.len() <= limit
    &&& out.len() <= text.len()
    &&& out == text.subrange(0, out.len() as int)
    &&& boundary(text, out.len() as int)
    &&& forall|k: int| out.len() < k <= limit && k <= text.len() ==> !boundary(text, k)
}
pub open spec fn cont(x: u8) -> bool { (x & 0xC0u8) == 0x80u8 }

// ---- assumptions about UTF-8 itself (A-UTF8; mathematical facts about the encoding, not about the code) ----------------
/// the bytes of a `&str` are well-formed UTF-8 (the type's safety invariant), and in well-formed UTF-8 a character is at most four bytes:
/// among any four consecutive bytes at least one is not a continuation byte (10xxxxxx)
#[verifier::external_body]
proof fn axiom_utf8_no_four_continuation_bytes(s: &str, k: int)
    requires 0 <= k, k + 3 < str_bytes(s).len(),
    ensures !cont(str_bytes(s)[k]) || !cont(str_bytes(s)[k + 1]) || !cont(str_bytes(s)[k + 2]) || !cont(str_bytes(s)[k + 3]),
{}
/// ... and the first byte of a non-empty text starts a character
#[verifier::external_body]
proof fn axiom_utf8_first_byte_not_continuation(s: &str)
    requires str_bytes(s).len() > 0,
    ensures !cont(str_bytes(s)[0]),
{}

// ---- trusted wrappers carrying the contracts of core functions ----------------------------------------------------
/// core `Iterator::rposition` on `slice::Iter<u8>`: the last index whose element satisfies the predicate
#[verifier::external_body]
fn slice_rposition__<F: Fn(&u8) -> bool>(s: &[u8], f: F) -> (r: Option<usize>)
    requires forall|i: int| 0 <= i < s@.len() ==> call_requires(f, (&s@[i],)),
    ensures match r {
        Some(k) => k < s@.len() && call_ensures(f, (&s@[k as int],), true)
            && forall|j: int| #![auto] k < j < s@.len() ==> call_ensures(f, (&s@[j],), false),
        None => forall|j: int| #![auto] 0 <= j < s@.len() ==> call_ensures(f, (&s@[j],), false),
    }
{ s.iter().rposition(f) }
/// core `Option::unwrap_unchecked`: undefined behaviour on None — so `is Some` is a proof obligation at the (unsafe) call
pub assume_specification<T>[ Option::<T>::unwrap_unchecked ](o: Option<T>) -> (r: T)
    requires o is Some,
    ensures r == o->Some_0;
/// core `&s[..k]` on a `&str`: panics unless k <= len and k is a character boundary (`str::is_char_boundary`: 0, len, or a byte
/// that is not 10xxxxxx) — the precondition is that panic condition
#[verifier::external_body]
fn str_prefix__(s: &str, k: usize) -> (r: &str)
    requires k <= str_bytes(s).len(), boundary(str_bytes(s), k as int),
    ensures str_bytes(r) == str_bytes(s).subrange(0, k as int),
{ &s[..k] }

// ---- `truncate`, `floor_char_boundary`, `is_utf8_char_boundary`: the real bodies -------------------------------------------
/*@contract truncate
        ensures truncated_to(str_bytes(s), r.bytes(), L as int),
@*/
//@extract src/webauthn.rs :: ^fn truncate<const L: usize> :: contracts=truncate:truncate :: str-prefix

/*@contract floor_char_boundary
        ensures
            r <= index, r <= str_bytes(s).len(), boundary(str_bytes(s), r as int),
            forall|k: int| r < k <= index && k <= str_bytes(s).len() ==> !boundary(str_bytes(s), k),
@*/
/*@inject fcb_closure
            ensures r == ((*$B & 0xC0u8) != 0x80u8)
@*/
/*@inject fcb_proof
        proof {
            let bytes__ = str_bytes($S);
            let w__ = bytes__.subrange($LB as int, $IDX + 1);
            assert forall|j: int| 0 <= j < w__.len() implies (call_ensures(pred__, (&w__[j],), false) ==> cont(bytes__[$LB + j])) by {
                assert(w__[j] == bytes__[$LB + j]);
            }
            assert forall|j: int| 0 <= j < w__.len() implies (call_ensures(pred__, (&w__[j],), true) ==> !cont(bytes__[$LB + j])) by {
                assert(w__[j] == bytes__[$LB + j]);
            }
            if $IDX >= 3 { axiom_utf8_no_four_continuation_bytes($S, $IDX - 3); } else { axiom_utf8_first_byte_not_continuation($S); }
            if $R is None {
                assert(call_ensures(pred__, (&w__[0],), false));
                if $IDX >= 3 {
                    assert(call_ensures(pred__, (&w__[1],), false));
                    assert(call_ensures(pred__, (&w__[2],), false));
                    assert(call_ensures(pred__, (&w__[3],), false));
                }
            } else {
                let k__ = $R->Some_0 as int;
                assert(call_ensures(pred__, (&w__[k__],), true));
                assert forall|q: int| $LB + k__ < q <= $IDX implies !boundary(bytes__, q) by {
                    assert(call_ensures(pred__, (&w__[q - $LB],), false));
                }
            }
        }
@*/
//@extract src/webauthn.rs :: ^fn floor_char_boundary :: contracts=floor_char_boundary:floor_char_boundary :: str-len=s :: rposition=fcb_closure,fcb_proof

/*@contract is_utf8_char_boundary
        ensures r == ((b & 0xC0u8) != 0x80u8),
@*/
/*@inject iucb_proof
    proof { assert(((b as i8) >= -0x40i8) == ((b & 0xC0u8) != 0x80u8)) by (bit_vector); }
@*/
//@extract src/webauthn.rs :: ^const fn is_utf8_char_boundary :: contracts=is_utf8_char_boundary:is_utf8_char_boundary :: proof-top=is_utf8_char_boundary:iucb_proof

// ---- the two helpers ------------------------------------------------------------------------
/*@contract skip_if_too_long
        ensures
            // C13: decoding never fails because of the text's length
            deserializer.infallible() && deserializer.item() is Text ==> r is Ok,
            // ... a text of at most L BYTES is kept verbatim, a longer one is reported absent
            r is Ok ==> deserializer.item() is Text && (match r->Ok_0 {
                Some(kept) => str_bytes(deserializer.item()->Text_0).len() <= L && kept.bytes() == str_bytes(deserializer.item()->Text_0),
                None => str_bytes(deserializer.item()->Text_0).len() > L,
            }),
@*/
//@extract src/webauthn.rs :: ^fn deserialize_from_str_and_skip_if_too_long :: contracts=deserialize_from_str_and_skip_if_too_long:skip_if_too_long :: strip=info_now

/*@contract and_truncate
        ensures
            deserializer.infallible() && !(deserializer.item() is Other) ==> r is Ok,
            // C15: absent stays absent, present stays present (the empty text included)
            r is Ok ==> (match r->Ok_0 {
                None => deserializer.item() is Null,
                // C13: ... and is the longest prefix of at most L bytes that ends on a character boundary
                Some(t) => deserializer.item() is Text && truncated_to(str_bytes(deserializer.item()->Text_0), t.bytes(), L as int),
            }),
@*/
//@extract src/webauthn.rs :: ^fn deserialize_from_str_and_truncate :: contracts=deserialize_from_str_and_truncate:and_truncate

// ---- the relying-party icon: parsed, never stored ---------------------------------------------
/*@contract icon_deserialize
        ensures
            // C13: a relying-party icon of ANY length is accepted (and discarded: `Icon` has no fields) ...
            deserializer.infallible() && deserializer.item() is Text ==> r is Ok,
            // ... and only a text is
            r is Ok ==> deserializer.item() is Text,
@*/
//@extract src/webauthn.rs :: ^pub struct Icon; :: noderive
//@extract src/webauthn.rs :: ^impl<'de> Deserialize<'de> for Icon :: contracts=deserialize:icon_deserialize

/// consequence spelled out (the property's own words): a name that fits its capacity is decoded unchanged
proof fn ob_C13_fitting_text_unchanged(text: Seq<u8>, out: Seq<u8>, limit: int)
    requires truncated_to(text, out, limit), text.len() <= limit,
    ensures out == text,
{
    assert(boundary(text, text.len() as int));
    if out.len() < text.len() { assert(!boundary(text, text.len() as int)); }
    assert(out == text.subrange(0, text.len() as int));
    assert(text.subrange(0, text.len() as int) == text);
}

} // verus!
fn main() {}
