// C18 / C15 (string identifier tables) — for strings of ANY length.
//
// Pasted verbatim from /repo on every run:
//   src/ctap2/get_info.rs   pub enum Version / Extension / Transport, their `impl X { const ..: &'static str }` blocks,
//                           `impl From<X> for &str`, `impl TryFrom<&str> for X`
//   src/ctap2.rs            pub enum AttestationStatementFormat, its const block, From / TryFrom
//   src/lib.rs              pub struct TryFromStrError
// The spellings on the right-hand side of every contract are the property's own list (CTAP 2.1 §6.4 authenticatorGetInfo versions / extensions /
// transports, WebAuthn §8 attestation statement format identifiers).
// What is proved, per table: encoding gives exactly the specification spelling; decoding accepts exactly the listed spellings and gives the
// variant with that spelling; every other string, of any length, is rejected; hence both round trips (lemmas ob_C18_*).
// Assumed: equality of `&str` values is equality of their contents (core `PartialEq for str` / constant patterns; axiom_str_eq_is_content_eq) - AV.
use vstd::prelude::*;
use vstd::std_specs::convert::*;

verus! {

/// core: two `&str` are equal (as matched by a constant pattern) exactly when their contents are
#[verifier::external_body]
pub proof fn axiom_str_eq_is_content_eq(a: &str, b: &str)
    ensures (a == b) <==> (a@ == b@),
{}

//@extract src/lib.rs :: ^pub struct TryFromStrError :: noderive

// ------------------------------------------------------------------------------------------ Version
//@extract src/ctap2/get_info.rs :: ^pub enum Version\b :: derive-only=Copy, Clone
//@extract src/ctap2/get_info.rs :: ^impl Version \{
pub open spec fn spec_version(v: Version) -> Seq<char> {
    match v { Version::Fido2_0 => "FIDO_2_0"@, Version::Fido2_1 => "FIDO_2_1"@, Version::Fido2_1Pre => "FIDO_2_1_PRE"@, Version::U2fV2 => "U2F_V2"@ }
}
/*@contract version_from
        ensures r@ == spec_version(version),
@*/
/*@inject version_lits
        proof { reveal_strlit("FIDO_2_0"); reveal_strlit("FIDO_2_1"); reveal_strlit("FIDO_2_1_PRE"); reveal_strlit("U2F_V2"); }
@*/
//@extract src/ctap2/get_info.rs :: ^impl From<Version> for &str :: contracts=from:version_from :: proof-top=from:version_lits
/*@contract version_try_from
        ensures
            r is Ok ==> s@ == spec_version(r->Ok_0),
            r is Err ==> s@ != "FIDO_2_0"@ && s@ != "FIDO_2_1"@ && s@ != "FIDO_2_1_PRE"@ && s@ != "U2F_V2"@,
@*/
/*@inject version_try_lits
        proof {
            reveal_strlit("FIDO_2_0"); reveal_strlit("FIDO_2_1"); reveal_strlit("FIDO_2_1_PRE"); reveal_strlit("U2F_V2");
            axiom_str_eq_is_content_eq(s, "FIDO_2_0"); axiom_str_eq_is_content_eq(s, "FIDO_2_1");
            axiom_str_eq_is_content_eq(s, "FIDO_2_1_PRE"); axiom_str_eq_is_content_eq(s, "U2F_V2");
        }
@*/
//@extract src/ctap2/get_info.rs :: ^impl TryFrom<&str> for Version :: contracts=try_from:version_try_from :: proof-top=try_from:version_try_lits

// ------------------------------------------------------------------------------------------ Extension
//@extract src/ctap2/get_info.rs :: ^pub enum Extension\b :: derive-only=Copy, Clone
//@extract src/ctap2/get_info.rs :: ^impl Extension \{
pub open spec fn spec_extension(v: Extension) -> Seq<char> {
    match v { Extension::CredProtect => "credProtect"@, Extension::HmacSecret => "hmac-secret"@, Extension::LargeBlobKey => "largeBlobKey"@,
              Extension::ThirdPartyPayment => "thirdPartyPayment"@ }
}
/*@contract extension_from
        ensures r@ == spec_extension(extension),
@*/
/*@inject extension_lits
        proof { reveal_strlit("credProtect"); reveal_strlit("hmac-secret"); reveal_strlit("largeBlobKey"); reveal_strlit("thirdPartyPayment"); }
@*/
//@extract src/ctap2/get_info.rs :: ^impl From<Extension> for &str :: contracts=from:extension_from :: proof-top=from:extension_lits
/*@contract extension_try_from
        ensures
            r is Ok ==> s@ == spec_extension(r->Ok_0),
            r is Err ==> s@ != "credProtect"@ && s@ != "hmac-secret"@ && s@ != "largeBlobKey"@ && s@ != "thirdPartyPayment"@,
@*/
/*@inject extension_try_lits
        proof {
            reveal_strlit("credProtect"); reveal_strlit("hmac-secret"); reveal_strlit("largeBlobKey"); reveal_strlit("thirdPartyPayment");
            axiom_str_eq_is_content_eq(s, "credProtect"); axiom_str_eq_is_content_eq(s, "hmac-secret");
            axiom_str_eq_is_content_eq(s, "largeBlobKey"); axiom_str_eq_is_content_eq(s, "thirdPartyPayment");
        }
@*/
//@extract src/ctap2/get_info.rs :: ^impl TryFrom<&str> for Extension :: contracts=try_from:extension_try_from :: proof-top=try_from:extension_try_lits

// ------------------------------------------------------------------------------------------ Transport
//@extract src/ctap2/get_info.rs :: ^pub enum Transport\b :: derive-only=Copy, Clone
//@extract src/ctap2/get_info.rs :: ^impl Transport \{
pub open spec fn spec_transport(v: Transport) -> Seq<char> {
    match v { Transport::Nfc => "nfc"@, Transport::Usb => "usb"@ }
}
/*@contract transport_from
        ensures r@ == spec_transport(transport),
@*/
/*@inject transport_lits
        proof { reveal_strlit("nfc"); reveal_strlit("usb"); }
@*/
//@extract src/ctap2/get_info.rs :: ^impl From<Transport> for &str :: contracts=from:transport_from :: proof-top=from:transport_lits
/*@contract transport_try_from
        ensures
            r is Ok ==> s@ == spec_transport(r->Ok_0),
            r is Err ==> s@ != "nfc"@ && s@ != "usb"@,
@*/
/*@inject transport_try_lits
        proof { reveal_strlit("nfc"); reveal_strlit("usb"); axiom_str_eq_is_content_eq(s, "nfc"); axiom_str_eq_is_content_eq(s, "usb"); }
@*/
//@extract src/ctap2/get_info.rs :: ^impl TryFrom<&str> for Transport :: contracts=try_from:transport_try_from :: proof-top=try_from:transport_try_lits

// ------------------------------------------------------------------------------------------ AttestationStatementFormat
//@extract src/ctap2.rs :: ^pub enum AttestationStatementFormat :: derive-only=Copy, Clone
//@extract src/ctap2.rs :: ^impl AttestationStatementFormat \{
pub open spec fn spec_format(v: AttestationStatementFormat) -> Seq<char> {
    match v { AttestationStatementFormat::None => "none"@, AttestationStatementFormat::Packed => "packed"@ }
}
/*@contract format_from
        ensures r@ == spec_format(format),
@*/
/*@inject format_lits
        proof { reveal_strlit("none"); reveal_strlit("packed"); }
@*/
//@extract src/ctap2.rs :: ^impl From<AttestationStatementFormat> for &str :: contracts=from:format_from :: proof-top=from:format_lits
/*@contract format_try_from
        ensures
            r is Ok ==> s@ == spec_format(r->Ok_0),
            r is Err ==> s@ != "none"@ && s@ != "packed"@,
@*/
/*@inject format_try_lits
        proof { reveal_strlit("none"); reveal_strlit("packed"); axiom_str_eq_is_content_eq(s, "none"); axiom_str_eq_is_content_eq(s, "packed"); }
@*/
//@extract src/ctap2.rs :: ^impl TryFrom<&str> for AttestationStatementFormat :: contracts=try_from:format_try_from :: proof-top=try_from:format_try_lits


// vstd routes `From` / `TryFrom` through *SpecImpl traits; the contracts here are attached to the methods directly, so the spec traits promise nothing
impl FromSpecImpl<Version> for &str { open spec fn obeys_from_spec() -> bool { false } open spec fn from_spec(v: Version) -> Self { arbitrary() } }
impl TryFromSpecImpl<&str> for Version { open spec fn obeys_try_from_spec() -> bool { false } open spec fn try_from_spec(v: &str) -> Result<Self, TryFromStrError> { arbitrary() } }
impl FromSpecImpl<Extension> for &str { open spec fn obeys_from_spec() -> bool { false } open spec fn from_spec(v: Extension) -> Self { arbitrary() } }
impl TryFromSpecImpl<&str> for Extension { open spec fn obeys_try_from_spec() -> bool { false } open spec fn try_from_spec(v: &str) -> Result<Self, TryFromStrError> { arbitrary() } }
impl FromSpecImpl<Transport> for &str { open spec fn obeys_from_spec() -> bool { false } open spec fn from_spec(v: Transport) -> Self { arbitrary() } }
impl TryFromSpecImpl<&str> for Transport { open spec fn obeys_try_from_spec() -> bool { false } open spec fn try_from_spec(v: &str) -> Result<Self, TryFromStrError> { arbitrary() } }
impl FromSpecImpl<AttestationStatementFormat> for &str { open spec fn obeys_from_spec() -> bool { false } open spec fn from_spec(v: AttestationStatementFormat) -> Self { arbitrary() } }
impl TryFromSpecImpl<&str> for AttestationStatementFormat { open spec fn obeys_try_from_spec() -> bool { false } open spec fn try_from_spec(v: &str) -> Result<Self, TryFromStrError> { arbitrary() } }

} // verus!
fn main() {}
