// C08 — the U2F request parser, for APDUs with a data field of ANY length.
//
// Pasted verbatim from /repo/src/ctap1.rs on every run:
//   pub enum ControlByte, impl TryFrom<u8> for ControlByte, the two `pub struct Request<'a>` (authenticate / register),
//   pub enum Request<'a>, and fn try_from of `impl TryFrom<iso7816::command::CommandView<'a>> for Request<'a>`
// and from the pinned iso7816 source: pub enum Status (the error type), pub enum Instruction.
// Scaffolding: iso7816's `CommandView` as an opaque value with a ghost model (class byte, instruction, data window) —
// that the view of a raw APDU is its Lc-delimited window is checked on the real parser by the Kani harness
// c08_k_data_window; `<&[T; N]>::try_from(&[T])` (core) is specified as "Ok with the same elements iff the length is N".
// Stated rewrite: `X.try_into()` -> `TryFrom::try_from(X)` (the definition of the blanket `TryInto`; vstd has no
// specification that connects `try_into` with a foreign `try_from`).
use vstd::prelude::*;
use vstd::std_specs::convert::*;

verus! {

#[verifier::external_type_specification]
#[verifier::external_body]
pub struct ExTryFromSliceError(core::array::TryFromSliceError);

/// core: `impl<'a, T, const N: usize> TryFrom<&'a [T]> for &'a [T; N]`
pub assume_specification<'a, T, const N: usize>[ <&'a [T; N] as core::convert::TryFrom<&'a [T]>>::try_from ](s: &'a [T]) -> (r: core::result::Result<&'a [T; N], core::array::TryFromSliceError>)
    ensures
        s@.len() == N ==> r is Ok && r->Ok_0@ == s@,
        s@.len() != N ==> r is Err;

pub mod iso7816 {
    use vstd::prelude::*;
    verus! {
//@extract dep:iso7816/src/response/status.rs :: ^pub enum Status :: noderive
//@extract dep:iso7816/src/command/instruction.rs :: ^pub enum Instruction :: derive-only=Clone, Copy
    pub mod command {
        use vstd::prelude::*;
        verus! {
        pub mod class {
            use vstd::prelude::*;
            verus! {
            #[verifier::external_body]
            pub struct Class { _p: () }
            impl Class {
                pub uninterp spec fn cla(&self) -> u8;
                #[verifier::external_body]
                pub const fn into_inner(self) -> (r: u8)
                    ensures r == self.cla(),
                { unimplemented!() }
            }
            }
        }
        /// iso7816 0.1 `CommandView`: p1 / p2 are public fields, the rest is reached through accessors
        pub struct CommandView<'a> {
            pub p1: u8,
            pub p2: u8,
            pub extended: bool,
            pub rest: OpaqueRest<'a>,
        }
        #[verifier::external_body]
        pub struct OpaqueRest<'a> { _p: &'a () }
        impl<'a> CommandView<'a> {
            pub uninterp spec fn spec_class(&self) -> u8;
            pub uninterp spec fn spec_instruction(&self) -> super::Instruction;
            pub uninterp spec fn spec_data(&self) -> Seq<u8>;
            #[verifier::external_body]
            pub fn class(&self) -> (r: class::Class)
                ensures r.cla() == self.spec_class(),
            { unimplemented!() }
            #[verifier::external_body]
            pub fn instruction(&self) -> (r: super::Instruction)
                ensures r == self.spec_instruction(),
            { unimplemented!() }
            #[verifier::external_body]
            pub fn data(&self) -> (r: &'a [u8])
                ensures r@ == self.spec_data(),
            { unimplemented!() }
        }
        }
    }
    }
}
pub use crate::iso7816::Status as Error;
pub type Result<T> = core::result::Result<T, Error>;

//@extract src/ctap1.rs :: ^pub enum ControlByte :: derive-only=Clone, Copy
//@extract src/ctap1.rs :: ^impl TryFrom<u8> for ControlByte
/// U2F raw message format 1.2, section 5.1: the control byte (P1) of an authentication request
pub open spec fn spec_control(b: u8) -> Result<ControlByte> {
    if b == 0x07 { Ok(ControlByte::CheckOnly) }
    else if b == 0x03 { Ok(ControlByte::EnforceUserPresenceAndSign) }
    else if b == 0x08 { Ok(ControlByte::DontEnforceUserPresenceAndSign) }
    else { Err(Error::IncorrectDataParameter) }
}
impl TryFromSpecImpl<u8> for ControlByte {
    open spec fn obeys_try_from_spec() -> bool { true }
    open spec fn try_from_spec(b: u8) -> Result<ControlByte> { spec_control(b) }
}

pub mod authenticate {
    use vstd::prelude::*;
    use super::ControlByte;
    verus! {
//@extract src/ctap1.rs :: ^    pub struct Request<'a> :: nth=0 :: noderive
    }
}
pub mod register {
    use vstd::prelude::*;
    verus! {
//@extract src/ctap1.rs :: ^    pub struct Request<'a> :: nth=1 :: noderive
    }
}
pub type Register<'a> = register::Request<'a>;
pub type Authenticate<'a> = authenticate::Request<'a>;
//@extract src/ctap1.rs :: ^pub enum Request<'a> :: noderive

/// the instruction byte as the parser sees it: iso7816 reports bytes it has no name for as `Unknown(b)`; the U2F
/// instruction bytes 1, 2, 3 are among those (checked on the real iso7816 code by c08_k_apdu_400)
pub open spec fn ins_of(i: iso7816::Instruction) -> u8 {
    match i { iso7816::Instruction::Unknown(b) => b, _ => 0 }
}

/// C08: the decision table of the property (U2F raw message format; ISO 7816 class 0 only)
pub open spec fn apdu_outcome(cla: u8, ins: u8, p1: u8, data: Seq<u8>, r: Result<Request<'_>>) -> bool {
    if cla != 0 { r == Err::<Request<'_>, Error>(Error::ClassNotSupported) }
    else if ins == 3 { r == Ok::<Request<'_>, Error>(Request::Version) }
    else if ins == 1 {
        if data.len() != 64 { r == Err::<Request<'_>, Error>(Error::IncorrectDataParameter) }
        else {
            &&& r is Ok
            &&& r->Ok_0 is Register
            &&& r->Ok_0->Register_0.challenge@ == data.subrange(0, 32)
            &&& r->Ok_0->Register_0.app_id@ == data.subrange(32, 64)
        }
    }
    else if ins == 2 {
        if spec_control(p1) is Err || data.len() < 65 || data.len() != 65 + data[64] as int {
            r == Err::<Request<'_>, Error>(Error::IncorrectDataParameter)
        } else {
            &&& r is Ok
            &&& r->Ok_0 is Authenticate
            &&& r->Ok_0->Authenticate_0.control_byte == spec_control(p1)->Ok_0
            &&& r->Ok_0->Authenticate_0.challenge@ == data.subrange(0, 32)
            &&& r->Ok_0->Authenticate_0.app_id@ == data.subrange(32, 64)
            &&& r->Ok_0->Authenticate_0.key_handle@ == data.subrange(65, data.len() as int)
        }
    }
    else { r == Err::<Request<'_>, Error>(Error::InstructionNotSupportedOrInvalid) }
}

/*@contract apdu
        ensures apdu_outcome(apdu.spec_class(), ins_of(apdu.spec_instruction()), apdu.p1, apdu.spec_data(), r),
@*/
/// (the contract is the `ensures` injected below, over the ghost model of the view; vstd's functional `try_from_spec` is not used)
impl<'a> TryFromSpecImpl<iso7816::command::CommandView<'a>> for Request<'a> {
    open spec fn obeys_try_from_spec() -> bool { false }
    open spec fn try_from_spec(v: iso7816::command::CommandView<'a>) -> Result<Request<'a>> { arbitrary() }
}
impl<'a> TryFrom<iso7816::command::CommandView<'a>> for Request<'a> {
    type Error = Error;
//@extract src/ctap1.rs :: ^    fn try_from\(apdu: iso7816::command::CommandView<'a>\) :: contracts=try_from:apdu :: try-into
}

} // verus!
fn main() {}
