// C09 — CTAP1/U2F responses are encoded in the U2F raw message layout.
//
// Pasted verbatim from /repo/src/ctap1.rs on every run: `pub enum Response`, the two
// `pub struct Response` (authenticate, register), `impl Response { fn serialize<S> }`.
// The postcondition is the U2F raw message format (FIDO U2F Raw Message Formats v1.2 §4.3, §5.4,
// §6) from the property statement; it is proved for EVERY buffer capacity S, every pre-fill
// and every part length (no bound), against the assumed heapless contracts (inc/heapless_contract.rs).
use vstd::prelude::*;

verus! {

//@include inc/heapless_contract.rs

pub mod iso7816 {
    pub type Data<const S: usize> = crate::heapless::Vec<u8, S>;
}
pub use crate::heapless_bytes::Bytes;

// type invariants of the containers (assumed, see inc/heapless_contract.rs)
broadcast use {crate::heapless_bytes::Bytes::len_le_capacity, crate::heapless::Vec::len_le_capacity};

//@include inc/int_bytes_contract.rs

pub mod authenticate {
    use vstd::prelude::*;
    use super::Bytes;
    verus! {
//@extract src/ctap1.rs :: ^    pub struct Response\b :: nth=0 :: noderive
    }
}
pub mod cosey {
    use vstd::prelude::*;
    use crate::heapless_bytes::Bytes;
    verus! {
    /// cosey 0.3 `EcdhEsHkdf256PublicKey { pub x: Bytes<32>, pub y: Bytes<32> }` (scaffolding: the declaration as in the dependency)
    pub struct EcdhEsHkdf256PublicKey { pub x: Bytes<32>, pub y: Bytes<32> }
    }
}
pub mod register {
    use vstd::prelude::*;
    use super::Bytes;
    use crate::cosey;
    verus! {
    broadcast use {crate::heapless_bytes::Bytes::len_le_capacity};
//@extract src/ctap1.rs :: ^    pub struct Response\b :: nth=1 :: noderive
/*@contract new
        ensures
            // 65-byte public key = 0x04 || x || y (uncompressed point); the other parts are stored as given; never panics
            r.public_key@ == seq![0x04u8] + public_key.x@ + public_key.y@,
            r.header_byte == header_byte,
            r.key_handle == key_handle,
            r.signature == signature,
            r.attestation_certificate == attestation_certificate,
@*/
//@extract src/ctap1.rs :: ^    impl Response \{ :: contracts=new
    }
}

//@extract src/ctap1.rs :: ^pub enum Response\b :: noderive

/// U2F raw message layout of a response (the specification side).
pub open spec fn u2f_layout(resp: Response) -> Seq<u8> {
    match resp {
        // reserved byte || 65-byte public key || key-handle length (1 byte) || key handle || certificate || signature
        Response::Register(reg) =>
            seq![reg.header_byte] + reg.public_key@ + seq![reg.key_handle@.len() as u8] + reg.key_handle@
                + reg.attestation_certificate@ + reg.signature@,
        // user-presence byte || counter (4 bytes big-endian) || signature
        Response::Authenticate(auth) => seq![auth.user_presence] + be32(auth.count) + auth.signature@,
        // the six version bytes
        Response::Version(v) => v@,
    }
}

/*@contract serialize
        ensures
            // what the buffer already held is never disturbed, success or not
            final(buf)@.len() >= old(buf)@.len(),
            final(buf)@.subrange(0, old(buf)@.len() as int) == old(buf)@,
            // success iff the whole message fits behind it
            r is Ok <==> old(buf)@.len() + u2f_layout(*self).len() <= S,
            // on success exactly the raw message is appended: appended length == sum of the parts
            r is Ok ==> final(buf)@ == old(buf)@ + u2f_layout(*self),
            final(buf)@.len() <= S,
            // the one-byte key-handle length field is the length itself (nothing wraps)
            (r is Ok && *self is Register) ==> (*self)->Register_0.key_handle@.len() <= 255,
@*/
//@extract src/ctap1.rs :: ^impl Response \{ :: contracts=serialize :: desugar-refpat :: int-bytes

/// big-endian means most significant byte first (sanity of the specification function itself)
pub proof fn ob_C09_be32_examples()
    ensures
        be32(0x01020304) == seq![1u8, 2, 3, 4],
        be32(0xFFFFFFFF) == seq![0xffu8, 0xff, 0xff, 0xff],
        be32(0x100) == seq![0u8, 0, 1, 0],
{
    assert(be32(0x01020304) == seq![1u8, 2, 3, 4]) by (compute);
    assert(be32(0xFFFFFFFF) == seq![0xffu8, 0xff, 0xff, 0xff]) by (compute);
    assert(be32(0x100) == seq![0u8, 0, 1, 0]) by (compute);
}

} // verus!
fn main() {}
