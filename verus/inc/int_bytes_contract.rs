// core integer -> byte-array conversions.  Verus cannot attach a specification to
// `u32::to_be_bytes` directly (its return type `[u8; size_of::<u32>()]` cannot be written in an
// `assume_specification`), so the extraction rewrites `e.to_be_bytes()` / `e.to_le_bytes()` into
// `e.to_be_bytes__()` / `e.to_le_bytes__()` (stated in the evidence), which are the trusted
// wrappers below: their bodies are the real core calls, their contracts are the definitions of
// big / little endian.
pub open spec fn be32(x: u32) -> Seq<u8> {
    seq![(x >> 24) as u8, ((x >> 16) & 0xff) as u8, ((x >> 8) & 0xff) as u8, (x & 0xff) as u8]
}
pub open spec fn le32(x: u32) -> Seq<u8> {
    seq![(x & 0xff) as u8, ((x >> 8) & 0xff) as u8, ((x >> 16) & 0xff) as u8, (x >> 24) as u8]
}
pub open spec fn be16(x: u16) -> Seq<u8> {
    seq![(x >> 8) as u8, (x & 0xff) as u8]
}
pub open spec fn le16(x: u16) -> Seq<u8> {
    seq![(x & 0xff) as u8, (x >> 8) as u8]
}

pub trait IntBytes4: Sized {
    spec fn be(self) -> Seq<u8>;
    spec fn le(self) -> Seq<u8>;
    fn to_be_bytes__(self) -> (r: [u8; 4])
        ensures r@ == self.be();
    fn to_le_bytes__(self) -> (r: [u8; 4])
        ensures r@ == self.le();
}
impl IntBytes4 for u32 {
    open spec fn be(self) -> Seq<u8> { be32(self) }
    open spec fn le(self) -> Seq<u8> { le32(self) }
    #[verifier::external_body]
    fn to_be_bytes__(self) -> (r: [u8; 4]) { self.to_be_bytes() }
    #[verifier::external_body]
    fn to_le_bytes__(self) -> (r: [u8; 4]) { self.to_le_bytes() }
}
pub trait IntBytes2: Sized {
    spec fn be(self) -> Seq<u8>;
    spec fn le(self) -> Seq<u8>;
    fn to_be_bytes__(self) -> (r: [u8; 2])
        ensures r@ == self.be();
    fn to_le_bytes__(self) -> (r: [u8; 2])
        ensures r@ == self.le();
}
impl IntBytes2 for u16 {
    open spec fn be(self) -> Seq<u8> { be16(self) }
    open spec fn le(self) -> Seq<u8> { le16(self) }
    #[verifier::external_body]
    fn to_be_bytes__(self) -> (r: [u8; 2]) { self.to_be_bytes() }
    #[verifier::external_body]
    fn to_le_bytes__(self) -> (r: [u8; 2]) { self.to_le_bytes() }
}
