// Specifications of a few core library functions that vstd 0.2026.09.13 does not cover (trusted,
// transcribed from the core documentation).
pub assume_specification<T, F: FnOnce(T) -> bool>[ core::option::Option::<T>::is_some_and ](this: core::option::Option<T>, f: F) -> (r: bool)
    requires this is Some ==> f.requires((this->Some_0,)),
    ensures
        this is None ==> !r,
        this is Some ==> f.ensures((this->Some_0,), r);
