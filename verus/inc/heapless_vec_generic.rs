// heapless 0.7 `Vec<T, N>` for an arbitrary element type, as far as the filtering loops use it
// (assumed contract, same as inc/heapless_contract.rs: push is Err(item) iff full).
pub mod heapless {
    use vstd::prelude::*;
    verus! {
    #[verifier::external_body]
    #[verifier::reject_recursive_types(T)]
    pub struct Vec<T, const N: usize> { _p: core::marker::PhantomData<T> }

    impl<T, const N: usize> View for Vec<T, N> {
        type V = Seq<T>;
        uninterp spec fn view(&self) -> Seq<T>;
    }

    impl<T, const N: usize> Vec<T, N> {
        #[verifier::external_body]
        pub fn new() -> (r: Self)
            ensures r@ == Seq::<T>::empty(),
        { unimplemented!() }

        #[verifier::external_body]
        pub fn push(&mut self, item: T) -> (r: Result<(), T>)
            ensures
                old(self)@.len() < N ==> r is Ok && final(self)@ == old(self)@.push(item),
                old(self)@.len() >= N ==> r == Err::<(), T>(item) && final(self)@ == old(self)@,
        { unimplemented!() }

        #[verifier::external_body]
        pub fn is_full(&self) -> (r: bool)
            ensures r == (self@.len() >= N),
        { unimplemented!() }

        #[verifier::external_body]
        pub fn len(&self) -> (r: usize)
            ensures r == self@.len(),
        { unimplemented!() }

        #[verifier::external_body]
        pub fn capacity(&self) -> (r: usize)
            ensures r == N,
        { unimplemented!() }

        #[verifier::external_body]
        pub fn extend_from_slice(&mut self, other: &[T]) -> (r: Result<(), ()>) where T: Clone
            ensures
                old(self)@.len() + other@.len() <= N ==> r is Ok && final(self)@ == old(self)@ + other@,
                old(self)@.len() + other@.len() > N ==> r is Err && final(self)@ == old(self)@,
        { unimplemented!() }
    }

    impl<T, const N: usize> Default for Vec<T, N> {
        #[verifier::external_body]
        fn default() -> (r: Self)
            ensures r@ == Seq::<T>::empty(),
        { unimplemented!() }
    }
    }
}
