// Contract of src/operation.rs (spec tables from CTAP 2.1 §6 and the property statement; shared by units).
impl VendorOperation {
    pub closed spec fn code(self) -> u8 { self.0 }
    pub closed spec fn mk(b: u8) -> VendorOperation { VendorOperation(b) }
    pub broadcast proof fn code_mk(b: u8)
        ensures #[trigger] Self::mk(b).code() == b,
    {}
    pub proof fn mk_code(self)
        ensures Self::mk(self.code()) == self,
    {}
}

/// Specification table: byte -> command (CTAP 2.1 §6 + vendor range of the property statement).
pub open spec fn spec_decode(b: u8) -> Result<Operation, ()> {
    if b == 0x01 { Ok(Operation::MakeCredential) }
    else if b == 0x02 { Ok(Operation::GetAssertion) }
    else if b == 0x04 { Ok(Operation::GetInfo) }
    else if b == 0x06 { Ok(Operation::ClientPin) }
    else if b == 0x07 { Ok(Operation::Reset) }
    else if b == 0x08 { Ok(Operation::GetNextAssertion) }
    else if b == 0x09 { Ok(Operation::BioEnrollment) }
    else if b == 0x0A { Ok(Operation::CredentialManagement) }
    else if b == 0x0B { Ok(Operation::Selection) }
    else if b == 0x0C { Ok(Operation::LargeBlobs) }
    else if b == 0x0D { Ok(Operation::Config) }
    else if b == 0x40 { Ok(Operation::PreviewBioEnrollment) }
    else if b == 0x41 { Ok(Operation::PreviewCredentialManagement) }
    else if 0x42 <= b <= 0x7F { Ok(Operation::Vendor(VendorOperation::mk(b))) }
    else { Err(()) }
}

/// Specification table: command -> byte.
pub open spec fn spec_encode(op: Operation) -> u8 {
    match op {
        Operation::MakeCredential => 0x01,
        Operation::GetAssertion => 0x02,
        Operation::GetInfo => 0x04,
        Operation::ClientPin => 0x06,
        Operation::Reset => 0x07,
        Operation::GetNextAssertion => 0x08,
        Operation::BioEnrollment => 0x09,
        Operation::CredentialManagement => 0x0A,
        Operation::Selection => 0x0B,
        Operation::LargeBlobs => 0x0C,
        Operation::Config => 0x0D,
        Operation::PreviewBioEnrollment => 0x40,
        Operation::PreviewCredentialManagement => 0x41,
        Operation::Vendor(v) => v.code(),
    }
}

// postcondition of the real `impl TryFrom<u8> for VendorOperation`
impl TryFromSpecImpl<u8> for VendorOperation {
    open spec fn obeys_try_from_spec() -> bool { true }
    open spec fn try_from_spec(b: u8) -> Result<Self, ()> {
        if 0x40 <= b <= 0x7F { Ok(VendorOperation::mk(b)) } else { Err(()) }
    }
}

// postcondition of the real `impl From<VendorOperation> for u8`
impl FromSpecImpl<VendorOperation> for u8 {
    open spec fn obeys_from_spec() -> bool { true }
    open spec fn from_spec(v: VendorOperation) -> u8 { v.code() }
}

// postcondition of the real `impl TryFrom<u8> for Operation`
impl TryFromSpecImpl<u8> for Operation {
    open spec fn obeys_try_from_spec() -> bool { true }
    open spec fn try_from_spec(b: u8) -> Result<Self, ()> { spec_decode(b) }
}

// postcondition of the real `impl From<Operation> for u8`
impl FromSpecImpl<Operation> for u8 {
    open spec fn obeys_from_spec() -> bool { true }
    open spec fn from_spec(op: Operation) -> u8 { spec_encode(op) }
}

