// Assumed contracts of the dependency containers (heapless 0.7 `Vec<u8, N>`, heapless-bytes 0.3
// `Bytes<N>`), as far as the extracted functions use them.  These are scaffolding: opaque
// types with a `Seq<u8>` view and `external_body` methods.  The contracts are transcribed from
// heapless 0.7.17 src/vec.rs (`push`: Err(item) iff full; `extend_from_slice`: all-or-nothing,
// capacity checked up front) and heapless-bytes 0.3 src/lib.rs (thin wrapper, `Deref` to the
// byte slice) and are validated boundedly on the real crates by the Kani harnesses `dep_k_*`.
// Type invariant `len <= N` appears as `requires` (it is guaranteed by the real types).
pub mod heapless {
    use vstd::prelude::*;
    verus! {
    #[verifier::external_body]
    #[verifier::reject_recursive_types(T)]
    pub struct Vec<T, const N: usize> { _p: core::marker::PhantomData<T> }

    impl<const N: usize> View for Vec<u8, N> {
        type V = Seq<u8>;
        uninterp spec fn view(&self) -> Seq<u8>;
    }

    impl<const N: usize> core::ops::Deref for Vec<u8, N> {
        type Target = [u8];
        #[verifier::external_body]
        fn deref(&self) -> (r: &[u8])
            ensures r@ == self@,
        { unimplemented!() }
    }

    impl<const N: usize> Vec<u8, N> {

        /// heapless 0.7 `Vec::resize_default`: Err(()) iff new_len > capacity (vector unchanged); otherwise the
        /// vector is truncated, or extended with `u8::default()` = 0, to exactly new_len elements.
        #[verifier::external_body]
        pub fn resize_default(&mut self, new_len: usize) -> (r: Result<(), ()>)
            ensures
                new_len > N ==> r is Err && final(self)@ == old(self)@,
                new_len <= N ==> r is Ok && final(self)@.len() == new_len
                    && (forall|i: int| 0 <= i < new_len && i < old(self)@.len() ==> final(self)@[i] == old(self)@[i])
                    && (forall|i: int| old(self)@.len() <= i < new_len ==> final(self)@[i] == 0u8),
        { unimplemented!() }

        /// `<[u8]>::split_first_mut` reached through DerefMut: the first element and the rest, both mutably; what
        /// is written through them is what the vector holds afterwards.
        #[verifier::external_body]
        pub fn split_first_mut(&mut self) -> (r: Option<(&mut u8, &mut [u8])>)
            ensures
                old(self)@.len() == 0 ==> r is None && final(self)@ == old(self)@,
                old(self)@.len() > 0 ==> r is Some
                    && *(r->Some_0.0) == old(self)@[0]
                    && (r->Some_0.1)@ == old(self)@.subrange(1, old(self)@.len() as int)
                    && final(r->Some_0.1)@.len() == old(self)@.len() - 1
                    && final(self)@ == seq![*final(r->Some_0.0)] + final(r->Some_0.1)@,
        { unimplemented!() }

        /// type invariant of heapless::Vec (assumed): the length never exceeds the capacity
        #[verifier::external_body]
        pub broadcast proof fn len_le_capacity(&self)
            ensures #[trigger] self@.len() <= N,
        { unimplemented!() }

        #[verifier::external_body]
        pub fn len(&self) -> (r: usize)
            ensures r == self@.len(), r <= N,
        { unimplemented!() }

        #[verifier::external_body]
        pub fn capacity(&self) -> (r: usize)
            ensures r == N,
        { unimplemented!() }

        #[verifier::external_body]
        pub fn is_empty(&self) -> (r: bool)
            ensures r == (self@.len() == 0),
        { unimplemented!() }

        #[verifier::external_body]
        pub fn is_full(&self) -> (r: bool)
            ensures r == (self@.len() == N),
        { unimplemented!() }

        #[verifier::external_body]
        pub fn clear(&mut self)
            ensures final(self)@ == Seq::<u8>::empty(),
        { unimplemented!() }

        #[verifier::external_body]
        pub fn truncate(&mut self, len: usize)
            ensures
                len >= old(self)@.len() ==> final(self)@ == old(self)@,
                len < old(self)@.len() ==> final(self)@ == old(self)@.subrange(0, len as int),
        { unimplemented!() }

        #[verifier::external_body]
        pub fn as_slice(&self) -> (r: &[u8])
            ensures r@ == self@,
        { unimplemented!() }
        #[verifier::external_body]
        pub fn push(&mut self, item: u8) -> (r: Result<(), u8>)
            ensures
                final(self)@.len() <= N,
                old(self)@.len() < N ==> r is Ok && final(self)@ == old(self)@.push(item),
                old(self)@.len() >= N ==> r == Err::<(), u8>(item) && final(self)@ == old(self)@,
        { unimplemented!() }

        #[verifier::external_body]
        pub fn extend_from_slice(&mut self, other: &[u8]) -> (r: Result<(), ()>)
            ensures
                final(self)@.len() <= N,
                old(self)@.len() + other@.len() <= N ==> r is Ok && final(self)@ == old(self)@ + other@,
                old(self)@.len() + other@.len() > N ==> r is Err && final(self)@ == old(self)@,
        { unimplemented!() }
    }
    }
}

pub mod heapless_bytes {
    use vstd::prelude::*;
    verus! {
    #[verifier::external_body]
    pub struct Bytes<const N: usize> { _p: () }

    impl<const N: usize> View for Bytes<N> {
        type V = Seq<u8>;
        uninterp spec fn view(&self) -> Seq<u8>;
    }

    impl<const N: usize> core::ops::Deref for Bytes<N> {
        type Target = [u8];
        #[verifier::external_body]
        fn deref(&self) -> (r: &[u8])
            ensures r@ == self@,
        { unimplemented!() }
    }

    impl<const N: usize> Bytes<N> {

        /// type invariant of heapless_bytes::Bytes (assumed): the length never exceeds the capacity
        #[verifier::external_body]
        pub broadcast proof fn len_le_capacity(&self)
            ensures #[trigger] self@.len() <= N,
        { unimplemented!() }

        #[verifier::external_body]
        pub fn len(&self) -> (r: usize)
            ensures r == self@.len(), r <= N,
        { unimplemented!() }

        #[verifier::external_body]
        pub fn capacity(&self) -> (r: usize)
            ensures r == N,
        { unimplemented!() }

        #[verifier::external_body]
        pub fn is_empty(&self) -> (r: bool)
            ensures r == (self@.len() == 0),
        { unimplemented!() }

        #[verifier::external_body]
        pub fn is_full(&self) -> (r: bool)
            ensures r == (self@.len() == N),
        { unimplemented!() }

        #[verifier::external_body]
        pub fn clear(&mut self)
            ensures final(self)@ == Seq::<u8>::empty(),
        { unimplemented!() }

        #[verifier::external_body]
        pub fn truncate(&mut self, len: usize)
            ensures
                len >= old(self)@.len() ==> final(self)@ == old(self)@,
                len < old(self)@.len() ==> final(self)@ == old(self)@.subrange(0, len as int),
        { unimplemented!() }

        #[verifier::external_body]
        pub fn as_slice(&self) -> (r: &[u8])
            ensures r@ == self@,
        { unimplemented!() }
        #[verifier::external_body]
        pub fn new() -> (r: Self)
            ensures r@ == Seq::<u8>::empty(),
        { unimplemented!() }

        #[verifier::external_body]
        pub fn push(&mut self, item: u8) -> (r: Result<(), u8>)
            ensures
                final(self)@.len() <= N,
                old(self)@.len() < N ==> r is Ok && final(self)@ == old(self)@.push(item),
                old(self)@.len() >= N ==> r == Err::<(), u8>(item) && final(self)@ == old(self)@,
        { unimplemented!() }

        #[verifier::external_body]
        pub fn extend_from_slice(&mut self, other: &[u8]) -> (r: Result<(), ()>)
            ensures
                final(self)@.len() <= N,
                old(self)@.len() + other@.len() <= N ==> r is Ok && final(self)@ == old(self)@ + other@,
                old(self)@.len() + other@.len() > N ==> r is Err && final(self)@ == old(self)@,
        { unimplemented!() }
    }
    }
}
