// Assumed contracts of the dependency containers (heapless 0.7 `Vec<u8, N>`, heapless-bytes 0.3
// `Bytes<N>`), as far as the extracted functions use them.  These are scaffolding: opaque
// types with a `Seq<u8>` view and `external_body` methods.  The contracts are transcribed from
// heapless 0.7.17 src/vec.rs (`push`: Err(item) iff full; `extend_from_slice`: all-or-nothing,
// capacity checked up front) and heapless-bytes 0.3 src/lib.rs (thin wrapper, `Deref` to the
// byte slice) and are validated boundedly on the real crates by the Kani harnesses `dep_k_*`.
// Type invariant `len <= N` appears as `requires` (it is guaranteed by the real types).
pub mod heapless {
    use vstd::prelude::*;
    verus! {
    #[verifier::external_body]
    #[verifier::reject_recursive_types(T)]
    pub struct Vec<T, const N: usize> { _p: core::marker::PhantomData<T> }

    impl<const N: usize> View for Vec<u8, N> {
        type V = Seq<u8>;
        uninterp spec fn view(&self) -> Seq<u8>;
    }

    impl<const N: usize> Vec<u8, N> {
        #[verifier::external_body]
        pub fn push(&mut self, item: u8) -> (r: Result<(), u8>)
            requires old(self)@.len() <= N,
            ensures
                final(self)@.len() <= N,
                old(self)@.len() < N ==> r is Ok && final(self)@ == old(self)@.push(item),
                old(self)@.len() >= N ==> r == Err::<(), u8>(item) && final(self)@ == old(self)@,
        { unimplemented!() }

        #[verifier::external_body]
        pub fn extend_from_slice(&mut self, other: &[u8]) -> (r: Result<(), ()>)
            requires old(self)@.len() <= N,
            ensures
                final(self)@.len() <= N,
                old(self)@.len() + other@.len() <= N ==> r is Ok && final(self)@ == old(self)@ + other@,
                old(self)@.len() + other@.len() > N ==> r is Err && final(self)@ == old(self)@,
        { unimplemented!() }
    }
    }
}

pub mod heapless_bytes {
    use vstd::prelude::*;
    verus! {
    #[verifier::external_body]
    pub struct Bytes<const N: usize> { _p: () }

    impl<const N: usize> View for Bytes<N> {
        type V = Seq<u8>;
        uninterp spec fn view(&self) -> Seq<u8>;
    }

    impl<const N: usize> core::ops::Deref for Bytes<N> {
        type Target = [u8];
        #[verifier::external_body]
        fn deref(&self) -> (r: &[u8])
            ensures r@ == self@,
        { unimplemented!() }
    }

    impl<const N: usize> Bytes<N> {
        #[verifier::external_body]
        pub fn new() -> (r: Self)
            ensures r@ == Seq::<u8>::empty(),
        { unimplemented!() }

        #[verifier::external_body]
        pub fn push(&mut self, item: u8) -> (r: Result<(), u8>)
            requires old(self)@.len() <= N,
            ensures
                final(self)@.len() <= N,
                old(self)@.len() < N ==> r is Ok && final(self)@ == old(self)@.push(item),
                old(self)@.len() >= N ==> r == Err::<(), u8>(item) && final(self)@ == old(self)@,
        { unimplemented!() }

        #[verifier::external_body]
        pub fn extend_from_slice(&mut self, other: &[u8]) -> (r: Result<(), ()>)
            requires old(self)@.len() <= N,
            ensures
                final(self)@.len() <= N,
                old(self)@.len() + other@.len() <= N ==> r is Ok && final(self)@ == old(self)@ + other@,
                old(self)@.len() + other@.len() > N ==> r is Err && final(self)@ == old(self)@,
        { unimplemented!() }
    }
    }
}
