// C02 — the response builders: "every response an authenticator can construct" starts from `ResponseBuilder::build()`, which must carry the
// required members over unchanged and leave EVERY optional member unset (so that, with the declaration obligations of Engine D — an unset
// optional member is skipped — a freshly built response encodes exactly its required members).
//
// Pasted verbatim from /repo on every run:
//   src/ctap2/get_assertion.rs    pub struct Response, pub struct ResponseBuilder, impl ResponseBuilder { build }, pub struct UnsignedExtensionOutputs,
//                                 pub struct ExtensionsOutput, impl ExtensionsOutput { is_set }  (true exactly when some member is set)
//   src/ctap2/get_info.rs         pub struct Response, pub struct ResponseBuilder, impl ResponseBuilder { build }, pub struct CtapOptions, impl Default for CtapOptions,
//                                 pub struct Certifications (get-info-full only)
//   src/ctap2/make_credential.rs  pub struct Response, pub struct ResponseBuilder, impl ResponseBuilder { build }, pub struct UnsignedExtensionOutputs
//   src/sizes.rs                  AUTHENTICATOR_DATA_LENGTH, ASN1_SIGNATURE_LENGTH;   src/ctap2.rs  pub type SerializedAuthenticatorData
// The member types are opaque placeholders (nothing is known about them, so nothing about them can be used).
use vstd::prelude::*;

verus! {

pub mod placeholders {
    use vstd::prelude::*;
    verus! {
    pub struct Bytes<const N: usize> { _p: () }
    pub struct ByteArray<const N: usize> { _p: () }
    pub struct PublicKeyCredentialDescriptor { _p: () }
    pub struct PublicKeyCredentialUserEntity { _p: () }
    pub struct AttestationStatement { _p: () }
    pub struct AttestationStatementFormat { _p: () }
    pub struct Vec<T, const N: usize> { _p: core::marker::PhantomData<T> }
    pub struct Version { _p: () }
    pub struct Extension { _p: () }
    pub struct Transport { _p: () }
    pub struct FilteredPublicKeyCredentialParameters { _p: () }
    }
}

pub mod sizes {
    use vstd::prelude::*;
    verus! {
//@extract src/sizes.rs :: ^pub const AUTHENTICATOR_DATA_LENGTH
//@extract src/sizes.rs :: ^pub const ASN1_SIGNATURE_LENGTH
    }
}

pub mod ctap2 {
    use vstd::prelude::*;
    use crate::placeholders::*;
    use crate::sizes::*;
    verus! {
//@extract src/ctap2.rs :: ^pub type SerializedAuthenticatorData

    pub mod get_assertion {
        use vstd::prelude::*;
        use crate::placeholders::*;
        use crate::sizes::*;
        verus! {
//@extract src/ctap2/get_assertion.rs :: ^pub struct Response\b :: noderive
//@extract src/ctap2/get_assertion.rs :: ^pub struct ResponseBuilder :: noderive
//@extract src/ctap2/get_assertion.rs :: ^pub struct UnsignedExtensionOutputs :: noderive
/*@contract ga_build
            ensures
                r.credential == self.credential, r.auth_data == self.auth_data, r.signature == self.signature,
                r.user is None, r.number_of_credentials is None, r.user_selected is None, r.large_blob_key is None,
                r.unsigned_extension_outputs is None, r.ep_att is None, r.att_stmt is None,
@*/
//@extract src/ctap2/get_assertion.rs :: ^impl ResponseBuilder \{ :: contracts=build:ga_build

//@extract src/ctap2/get_assertion.rs :: ^pub struct ExtensionsOutput :: noderive
        #[cfg(not(feature = "third-party-payment"))]
        pub open spec fn tpp_set(e: &ExtensionsOutput) -> bool { false }
        #[cfg(feature = "third-party-payment")]
        pub open spec fn tpp_set(e: &ExtensionsOutput) -> bool { e.third_party_payment is Some }
/*@contract eo_is_set
            // "is there anything to put into the authenticator data's extension map": true exactly when some member is set
            ensures r == (self.hmac_secret is Some || tpp_set(self)),
@*/
//@extract src/ctap2/get_assertion.rs :: ^impl ExtensionsOutput \{ :: contracts=is_set:eo_is_set
        }
    }

    pub mod get_info {
        use vstd::prelude::*;
        use crate::placeholders::*;
        verus! {
//@extract src/ctap2/get_info.rs :: ^pub struct Response\b :: noderive
//@extract src/ctap2/get_info.rs :: ^pub struct ResponseBuilder :: noderive
//@extract src/ctap2/get_info.rs :: ^pub struct CtapOptions :: noderive
//@extract src/ctap2/get_info.rs :: ^pub struct Certifications :: noderive
        /// the members that exist only with `get-info-full` (this unit runs in the default configuration and, as `c02_builders@allfeatures`, with it)
        #[cfg(not(feature = "get-info-full"))]
        pub open spec fn full_members_unset(r: Response) -> bool { true }
        #[cfg(feature = "get-info-full")]
        pub open spec fn full_members_unset(r: Response) -> bool {
            r.force_pin_change is None && r.min_pin_length is None && r.firmware_version is None && r.max_cred_blob_length is None
            && r.max_rpids_for_set_min_pin_length is None && r.preferred_platform_uv_attempts is None && r.uv_modality is None
            && r.certifications is None && r.remaining_discoverable_credentials is None && r.vendor_prototype_config_commands is None
            && r.attestation_formats is None && r.uv_count_since_last_pin_entry is None && r.long_touch_for_reset is None
        }
        #[cfg(not(feature = "get-info-full"))]
        pub open spec fn full_options_unset(o: CtapOptions) -> bool { true }
        #[cfg(feature = "get-info-full")]
        pub open spec fn full_options_unset(o: CtapOptions) -> bool {
            o.ep is None && o.uv_acfg is None && o.always_uv is None && o.authnr_cfg is None && o.bio_enroll is None && o.uv_bio_enroll is None
            && o.set_min_pin_length is None && o.make_cred_uv_not_rqd is None && o.credential_mgmt_preview is None
            && o.user_verification_mgmt_preview is None && o.no_mc_ga_permissions_with_client_pin is None
        }
/*@contract gi_build
            ensures
                r.versions == self.versions, r.aaguid == self.aaguid,
                r.extensions is None, r.options is None, r.max_msg_size is None, r.pin_protocols is None, r.max_creds_in_list is None,
                r.max_cred_id_length is None, r.transports is None, r.algorithms is None, r.max_serialized_large_blob_array is None,
                full_members_unset(r),
@*/
//@extract src/ctap2/get_info.rs :: ^impl ResponseBuilder \{ :: contracts=build:gi_build
/*@contract gi_options_default
            ensures
                // CTAP 2.1 §6.4 option defaults: rk false, up true; every option with no default value absent
                r.rk == false, r.up == true, r.uv is None, r.plat is None, r.cred_mgmt is None, r.client_pin is None, r.large_blobs is None,
                r.pin_uv_auth_token is None, full_options_unset(r),
@*/
//@extract src/ctap2/get_info.rs :: ^impl Default for CtapOptions :: contracts=default:gi_options_default
        }
    }

    pub mod make_credential {
        use vstd::prelude::*;
        use crate::placeholders::*;
        use crate::sizes::*;
        verus! {
//@extract src/ctap2/make_credential.rs :: ^pub struct Response\b :: noderive
//@extract src/ctap2/make_credential.rs :: ^pub struct ResponseBuilder :: noderive
//@extract src/ctap2/make_credential.rs :: ^pub struct UnsignedExtensionOutputs :: noderive
/*@contract mc_build
            ensures
                r.fmt == self.fmt, r.auth_data == self.auth_data,
                r.att_stmt is None, r.ep_att is None, r.large_blob_key is None, r.unsigned_extension_outputs is None,
@*/
//@extract src/ctap2/make_credential.rs :: ^impl ResponseBuilder \{ :: contracts=build:mc_build
        }
    }
    }
}

} // verus!
fn main() {}
