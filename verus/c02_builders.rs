// C02 — the response builders: "every response an authenticator can construct" starts from `ResponseBuilder::build()`, which must carry the
// required members over unchanged and leave EVERY optional member unset (so that, with the declaration obligations of Engine D — an unset
// optional member is skipped — a freshly built response encodes exactly its required members).
//
// Pasted verbatim from /repo on every run:
//   src/ctap2/get_assertion.rs    pub struct Response, pub struct ResponseBuilder, impl ResponseBuilder { build }, pub struct UnsignedExtensionOutputs
//   src/ctap2/make_credential.rs  pub struct Response, pub struct ResponseBuilder, impl ResponseBuilder { build }, pub struct UnsignedExtensionOutputs
//   src/sizes.rs                  AUTHENTICATOR_DATA_LENGTH, ASN1_SIGNATURE_LENGTH;   src/ctap2.rs  pub type SerializedAuthenticatorData
// The member types are opaque placeholders (nothing is known about them, so nothing about them can be used).
use vstd::prelude::*;

verus! {

pub mod placeholders {
    use vstd::prelude::*;
    verus! {
    pub struct Bytes<const N: usize> { _p: () }
    pub struct ByteArray<const N: usize> { _p: () }
    pub struct PublicKeyCredentialDescriptor { _p: () }
    pub struct PublicKeyCredentialUserEntity { _p: () }
    pub struct AttestationStatement { _p: () }
    pub struct AttestationStatementFormat { _p: () }
    }
}

pub mod sizes {
    use vstd::prelude::*;
    verus! {
//@extract src/sizes.rs :: ^pub const AUTHENTICATOR_DATA_LENGTH
//@extract src/sizes.rs :: ^pub const ASN1_SIGNATURE_LENGTH
    }
}

pub mod ctap2 {
    use vstd::prelude::*;
    use crate::placeholders::*;
    use crate::sizes::*;
    verus! {
//@extract src/ctap2.rs :: ^pub type SerializedAuthenticatorData

    pub mod get_assertion {
        use vstd::prelude::*;
        use crate::placeholders::*;
        use crate::sizes::*;
        verus! {
//@extract src/ctap2/get_assertion.rs :: ^pub struct Response\b :: noderive
//@extract src/ctap2/get_assertion.rs :: ^pub struct ResponseBuilder :: noderive
//@extract src/ctap2/get_assertion.rs :: ^pub struct UnsignedExtensionOutputs :: noderive
/*@contract ga_build
            ensures
                r.credential == self.credential, r.auth_data == self.auth_data, r.signature == self.signature,
                r.user is None, r.number_of_credentials is None, r.user_selected is None, r.large_blob_key is None,
                r.unsigned_extension_outputs is None, r.ep_att is None, r.att_stmt is None,
@*/
//@extract src/ctap2/get_assertion.rs :: ^impl ResponseBuilder \{ :: contracts=build:ga_build
        }
    }

    pub mod make_credential {
        use vstd::prelude::*;
        use crate::placeholders::*;
        use crate::sizes::*;
        verus! {
//@extract src/ctap2/make_credential.rs :: ^pub struct Response\b :: noderive
//@extract src/ctap2/make_credential.rs :: ^pub struct ResponseBuilder :: noderive
//@extract src/ctap2/make_credential.rs :: ^pub struct UnsignedExtensionOutputs :: noderive
/*@contract mc_build
            ensures
                r.fmt == self.fmt, r.auth_data == self.auth_data,
                r.att_stmt is None, r.ep_att is None, r.large_blob_key is None, r.unsigned_extension_outputs is None,
@*/
//@extract src/ctap2/make_credential.rs :: ^impl ResponseBuilder \{ :: contracts=build:mc_build
        }
    }
    }
}

} // verus!
fn main() {}
