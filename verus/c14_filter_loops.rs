// C14 — the two hand-written filtering loops, for lists of ANY length.
//
// Pasted verbatim from /repo on every run:
//   src/ctap2.rs     pub enum AttestationStatementFormat, pub struct AttestationFormatsPreference,
//                    fn visit_seq of the visitor inside `impl Deserialize for AttestationFormatsPreference`
//   src/webauthn.rs  pub struct KnownPublicKeyCredentialParameters, pub enum UnknownPKCredentialParam,
//                    pub struct FilteredPublicKeyCredentialParameters,
//                    fn visit_seq of the visitor inside `impl Deserialize for FilteredPublicKeyCredentialParameters`
// Scaffolding: a serde `SeqAccess` with a ghost model (the elements still to be delivered; it may fail at any
// point unless `infallible()`), the assumed heapless `Vec<T, N>::push` contract, and the *contracts* of the two
// element classifiers (`AttestationStatementFormat::try_from(&str)` and `KnownPublicKeyCredentialParameters::
// try_from(PublicKeyCredentialParameters)`) as uninterpreted spec functions — those two functions are proved against
// their tables by the Kani harnesses c18_k_transport_and_format_strings and c14_k_known_parameters.
// Annotation: contract on each visit_seq and the invariant of its `while let` loop (unfolded to loop/match/break).
use vstd::prelude::*;
use vstd::std_specs::convert::*;

verus! {

//@include inc/heapless_vec_generic.rs
pub use crate::heapless::Vec;

// ---- serde scaffolding --------------------------------------------------------------------
pub mod serde { pub mod de {
    use vstd::prelude::*;
    verus! {
    pub trait SeqAccess<'de>: Sized {
        type Error;
        /// ghost: the elements that are still to be delivered, as values of type T
        spec fn todo<T>(&self) -> Seq<T>;
        /// ghost: this sequence never reports a decoding error
        spec fn infallible(&self) -> bool;
        fn next_element<T>(&mut self) -> (r: core::result::Result<Option<T>, Self::Error>)
            ensures
                final(self).infallible() == old(self).infallible(),
                old(self).infallible() ==> r is Ok,
                r is Ok ==> (
                    (old(self).todo::<T>().len() == 0 ==> r->Ok_0 is None && final(self).todo::<T>() == old(self).todo::<T>())
                    && (old(self).todo::<T>().len() > 0 ==> r->Ok_0 == Some(old(self).todo::<T>()[0])
                        && final(self).todo::<T>() == old(self).todo::<T>().skip(1))),
        ;
    }
    pub trait Visitor<'de>: Sized {
        type Value;
        fn visit_seq<A>(self, seq: A) -> core::result::Result<Self::Value, A::Error> where A: SeqAccess<'de>;
    }
    }
} }

// =========================================================================== attestation formats
pub struct TryFromStrError;
//@extract src/ctap2.rs :: ^pub enum AttestationStatementFormat :: derive-only=Clone, Copy
//@extract src/ctap2.rs :: ^pub struct AttestationFormatsPreference :: noderive

/// contract of `AttestationStatementFormat::try_from(&str)` ("packed" / "none" / anything else): uninterpreted here,
/// proved against the spelling table by Kani (c18_k_transport_and_format_strings)
pub uninterp spec fn spec_format(s: &str) -> core::result::Result<AttestationStatementFormat, TryFromStrError>;

impl TryFrom<&str> for AttestationStatementFormat {
    type Error = TryFromStrError;
    #[verifier::external_body]
    fn try_from(s: &str) -> core::result::Result<Self, TryFromStrError> { unimplemented!() }
}
impl TryFromSpecImpl<&str> for AttestationStatementFormat {
    open spec fn obeys_try_from_spec() -> bool { true }
    open spec fn try_from_spec(s: &str) -> core::result::Result<Self, TryFromStrError> { spec_format(s) }
}
impl AttestationFormatsPreference {
    /// (the fields are pub(crate); public contracts go through these views)
    pub closed spec fn known_view(&self) -> Seq<AttestationStatementFormat> { self.known_formats@ }
    pub closed spec fn unknown_view(&self) -> bool { self.unknown }
}
impl Default for AttestationFormatsPreference {
    #[verifier::external_body]
    fn default() -> (r: Self)
        ensures r.known_view() == Seq::<AttestationStatementFormat>::empty(), !r.unknown_view(),
    { unimplemented!() }
}

/// C14: the known formats are reported in the platform's order (the first two), the presence of any other format
/// is reported as a flag — one step of the left-to-right pass, and the whole pass.
pub open spec fn formats_step(k: Seq<AttestationStatementFormat>, u: bool, x: &str) -> (Seq<AttestationStatementFormat>, bool) {
    match spec_format(x) {
        Ok(f) => (if k.len() < 2 { k.push(f) } else { k }, u),
        Err(_) => (k, true),
    }
}
pub open spec fn formats_run<'a>(todo: Seq<&'a str>, k: Seq<AttestationStatementFormat>, u: bool) -> (Seq<AttestationStatementFormat>, bool)
    decreases todo.len(),
{
    if todo.len() == 0 { (k, u) } else {
        let (k2, u2) = formats_step(k, u, todo[0]);
        formats_run(todo.skip(1), k2, u2)
    }
}

/*@contract formats
        ensures
            // never an error because of the list's content
            seq.infallible() ==> r is Ok,
            // the whole list is consumed and filtered in order
            r is Ok ==> (r->Ok_0.known_view(), r->Ok_0.unknown_view())
                == formats_run(seq.todo::<&str>(), Seq::<AttestationStatementFormat>::empty(), false),
@*/
/*@loopinv formats
        let ghost orig__ = seq.todo::<&str>();
        let ghost inf__ = seq.infallible();
@@
            invariant
                formats_run(seq.todo::<&str>(), preference.known_formats@, preference.unknown)
                    == formats_run(orig__, Seq::<AttestationStatementFormat>::empty(), false),
                seq.infallible() == inf__,
            ensures
                seq.todo::<&str>().len() == 0,
                formats_run(seq.todo::<&str>(), preference.known_formats@, preference.unknown)
                    == formats_run(orig__, Seq::<AttestationStatementFormat>::empty(), false),
            decreases seq.todo::<&str>().len(),
@*/
pub struct FormatsVisitor;
impl<'de> serde::de::Visitor<'de> for FormatsVisitor {
    type Value = AttestationFormatsPreference;
//@extract src/ctap2.rs :: ^            fn visit_seq<A> :: contracts=visit_seq:formats :: loop-invariant=formats :: no-loop-isolation
}

// =========================================================================== algorithm parameters
#[verifier::external_body]
pub struct PublicKeyCredentialParameters { _p: () }
//@extract src/webauthn.rs :: ^pub struct KnownPublicKeyCredentialParameters :: noderive
//@extract src/webauthn.rs :: ^pub enum UnknownPKCredentialParam
pub const COUNT_KNOWN_ALGS: usize = 2;
//@extract src/webauthn.rs :: ^pub struct FilteredPublicKeyCredentialParameters :: noderive

/// contract of `KnownPublicKeyCredentialParameters::try_from(PublicKeyCredentialParameters)` (type "public-key" and
/// algorithm ES256 / EdDSA, else an error): uninterpreted here, proved by Kani (c14_k_known_parameters)
pub uninterp spec fn spec_known(p: PublicKeyCredentialParameters) -> core::result::Result<KnownPublicKeyCredentialParameters, UnknownPKCredentialParam>;

impl TryFrom<PublicKeyCredentialParameters> for KnownPublicKeyCredentialParameters {
    type Error = UnknownPKCredentialParam;
    #[verifier::external_body]
    fn try_from(value: PublicKeyCredentialParameters) -> core::result::Result<Self, UnknownPKCredentialParam> { unimplemented!() }
}
impl TryFromSpecImpl<PublicKeyCredentialParameters> for KnownPublicKeyCredentialParameters {
    open spec fn obeys_try_from_spec() -> bool { true }
    open spec fn try_from_spec(p: PublicKeyCredentialParameters) -> core::result::Result<Self, UnknownPKCredentialParam> { spec_known(p) }
}

/// C14: exactly the entries of known type and algorithm, in the platform's order of preference (the first two)
pub open spec fn params_run(todo: Seq<PublicKeyCredentialParameters>, k: Seq<KnownPublicKeyCredentialParameters>) -> Seq<KnownPublicKeyCredentialParameters>
    decreases todo.len(),
{
    if todo.len() == 0 { k } else {
        let k2 = match spec_known(todo[0]) {
            Ok(el) => if k.len() < 2 { k.push(el) } else { k },
            Err(_) => k,
        };
        params_run(todo.skip(1), k2)
    }
}

/*@contract params
        ensures
            seq.infallible() ==> r is Ok,
            r is Ok ==> r->Ok_0.0@ == params_run(seq.todo::<PublicKeyCredentialParameters>(), Seq::<KnownPublicKeyCredentialParameters>::empty()),
@*/
/*@loopinv params
        let ghost orig__ = seq.todo::<PublicKeyCredentialParameters>();
        let ghost inf__ = seq.infallible();
@@
            invariant
                params_run(seq.todo::<PublicKeyCredentialParameters>(), values.0@)
                    == params_run(orig__, Seq::<KnownPublicKeyCredentialParameters>::empty()),
                seq.infallible() == inf__,
            ensures
                seq.todo::<PublicKeyCredentialParameters>().len() == 0,
                params_run(seq.todo::<PublicKeyCredentialParameters>(), values.0@)
                    == params_run(orig__, Seq::<KnownPublicKeyCredentialParameters>::empty()),
            decreases seq.todo::<PublicKeyCredentialParameters>().len(),
@*/
pub struct ParamsVisitor;
impl<'de> serde::de::Visitor<'de> for ParamsVisitor {
    type Value = FilteredPublicKeyCredentialParameters;
//@extract src/webauthn.rs :: ^            fn visit_seq<A> :: contracts=visit_seq:params :: loop-invariant=params :: no-loop-isolation
}

} // verus!
fn main() {}
