// A4 / C12 / C05 — the container decoders of the pinned dependencies, for inputs of ANY length.
//
// Pasted verbatim on every run from the pinned dependency sources (version read from /repo/Cargo.lock):
//   heapless 0.7        src/de.rs    fn visit_seq of the visitor inside `impl Deserialize for Vec<T, N>`
//   heapless-bytes 0.3  src/lib.rs   fn visit_bytes of the visitor inside `impl Deserialize for Bytes<N>`
// These two functions decide what a CTAP byte string / array that does not fit its heapless container becomes:
// C12 says it must be an error (never a truncation, never a panic), C01/C02 need the accepted content verbatim.
//
// Scaffolding: a serde `SeqAccess` with a ghost model (the elements still to be delivered; may fail at any point
// unless `infallible()`), serde's `de::Error::invalid_length` constructor (opaque), and the assumed contracts of
// heapless `Vec::{new, push, extend_from_slice, capacity}` (validated on the real heapless code by the Kani harness
// dep_k_heapless_vec_contract).
use vstd::prelude::*;
use vstd::string::StringSliceAdditionalSpecFns;

verus! {

//@include inc/heapless_vec_generic.rs
pub use crate::heapless::Vec;

pub mod serde { pub mod de {
    use vstd::prelude::*;
    verus! {
    pub trait Error: Sized {
        /// serde: "the input contained a sequence or map of the wrong length" — always an error value;
        /// the second argument is only used for the message (`&dyn Expected` in serde, generic here)
        fn invalid_length<X>(len: usize, exp: &X) -> Self;
    }
    pub trait SeqVisitor<'de>: Sized {
        type Value;
        /// precondition hook of the scaffold: the capacity is not usize::MAX (`capacity() + 1` is computed)
        spec fn cap_ok() -> bool;
        fn visit_seq<A>(self, seq: A) -> core::result::Result<Self::Value, A::Error> where A: SeqAccess<'de>
            requires Self::cap_ok();
    }
    pub trait StrVisitor<'de>: Sized {
        type Value;
        fn visit_str<E>(self, v: &str) -> core::result::Result<Self::Value, E> where E: Error;
    }
    pub trait BytesVisitor<'de>: Sized {
        type Value;
        fn visit_bytes<E>(self, v: &[u8]) -> core::result::Result<Self::Value, E> where E: Error;
    }
    pub trait SeqAccess<'de>: Sized {
        type Error: Error;
        spec fn todo<T>(&self) -> Seq<T>;
        spec fn infallible(&self) -> bool;
        fn next_element<T>(&mut self) -> (r: core::result::Result<Option<T>, Self::Error>)
            ensures
                final(self).infallible() == old(self).infallible(),
                old(self).infallible() ==> r is Ok,
                r is Ok ==> (
                    (old(self).todo::<T>().len() == 0 ==> r->Ok_0 is None && final(self).todo::<T>() == old(self).todo::<T>())
                    && (old(self).todo::<T>().len() > 0 ==> r->Ok_0 == Some(old(self).todo::<T>()[0])
                        && final(self).todo::<T>() == old(self).todo::<T>().skip(1))),
        ;
    }
    }
} }
use crate::serde::de::{Error, SeqAccess};
use crate::serde::de;

// =========================================================================== heapless::Vec<T, N>
/*@contract vec_visit_seq
        ensures
            // C12: more elements than the capacity => an error, never a truncated list
            seq.todo::<T>().len() > N ==> r is Err,
            // C01: a list that fits and decodes is returned verbatim, in order
            r is Ok ==> r->Ok_0@ == seq.todo::<T>(),
            // C05: a list that fits fails only if an element fails
            seq.infallible() && seq.todo::<T>().len() <= N ==> r is Ok,
@*/
/*@loopinv vec_visit_seq
        let ghost orig__ = seq.todo::<T>();
        let ghost inf__ = seq.infallible();
@@
            invariant
                values@ + seq.todo::<T>() == orig__,
                values@.len() <= N,
                seq.infallible() == inf__,
            ensures
                seq.todo::<T>().len() == 0,
                values@ + seq.todo::<T>() == orig__,
                values@.len() <= N,
            decreases seq.todo::<T>().len(),
@*/
pub struct VecVisitor<T, const N: usize> { _p: core::marker::PhantomData<T> }
impl<'de, T, const N: usize> serde::de::SeqVisitor<'de> for VecVisitor<T, N> {
    type Value = Vec<T, N>;
    open spec fn cap_ok() -> bool { N < usize::MAX }
//@extract dep:heapless/src/de.rs :: ^            fn visit_seq<A> :: nth=2 :: contracts=visit_seq:vec_visit_seq :: loop-invariant=vec_visit_seq :: no-loop-isolation
}

// =========================================================================== heapless_bytes::Bytes<N>
pub struct Bytes<const N: usize> { bytes: Vec<u8, N> }
impl<const N: usize> Bytes<N> {
    pub closed spec fn view(&self) -> Seq<u8> { self.bytes@ }
    pub closed spec fn inner(&self) -> Vec<u8, N> { self.bytes }
//@extract dep:heapless-bytes/src/lib.rs :: ^    pub fn from<T: Into<Vec<u8, N>>> :: contracts=from:bytes_from
}
/// core: `impl<T> From<T> for T { fn from(t: T) -> T { t } }` (the reflexive conversion `Bytes::from(buf)` goes through)
pub assume_specification<T>[ <T as core::convert::From<T>>::from ](t: T) -> (r: T)
    ensures r == t;

/*@contract bytes_from
        requires call_requires(<T as Into<Vec<u8, N>>>::into, (bytes,)),
        ensures call_ensures(<T as Into<Vec<u8, N>>>::into, (bytes,), r.inner()),
@*/
/*@contract bytes_visit_bytes
        ensures
            // C12: longer than the capacity => an error
            v@.len() > N ==> r is Err,
            // C01 / C05: anything that fits is accepted and copied verbatim
            v@.len() <= N ==> r is Ok && r->Ok_0.view() == v@,
@*/
pub struct ValueVisitor<const N: usize>;
impl<'de, const N: usize> serde::de::BytesVisitor<'de> for ValueVisitor<N> {
    type Value = Bytes<N>;
//@extract dep:heapless-bytes/src/lib.rs :: ^            fn visit_bytes<E> :: contracts=visit_bytes:bytes_visit_bytes
}

// =========================================================================== heapless::String<N>
/// heapless 0.7 `String<N>`: the real struct, `new`, `push_str` and `FromStr::from_str` (the fallible conversion the
/// user-icon helper of ctap-types relies on), verified against the `Vec::extend_from_slice` contract; the byte
/// content of a `&str` is vstd's `spec_bytes()` (what `str::as_bytes` and `str::len` are specified over)
pub open spec fn str_bytes(s: &str) -> Seq<u8> { s.spec_bytes() }
//@extract dep:heapless/src/string.rs :: ^pub struct String<const N: usize>
impl<const N: usize> String<N> {
    pub closed spec fn bytes(&self) -> Seq<u8> { self.vec@ }
//@extract dep:heapless/src/string.rs :: ^    pub const fn new\(\) :: contracts=new:string_new
//@extract dep:heapless/src/string.rs :: ^    pub fn push_str :: contracts=push_str:string_push_str
}
/*@contract string_new
        ensures r.bytes() == Seq::<u8>::empty(),
@*/
/*@contract string_push_str
        ensures
            old(self).bytes().len() + str_bytes(string).len() <= N ==> r is Ok && final(self).bytes() == old(self).bytes() + str_bytes(string),
            old(self).bytes().len() + str_bytes(string).len() > N ==> r is Err && final(self).bytes() == old(self).bytes(),
@*/
/*@contract string_from_str
        ensures
            str_bytes(s).len() <= N ==> r is Ok && r->Ok_0.bytes() == str_bytes(s),
            str_bytes(s).len() > N ==> r is Err,
@*/
pub trait FromStr: Sized {
    type Err;
    fn from_str(s: &str) -> core::result::Result<Self, Self::Err>;
}
impl<const N: usize> FromStr for String<N> {
    type Err = ();
//@extract dep:heapless/src/string.rs :: ^    fn from_str\(s: &str\) :: contracts=from_str:string_from_str
}
/*@contract string_visit_str
        ensures
            // C12: longer (in bytes) than the capacity => an error, never a truncation
            str_bytes(v).len() > N ==> r is Err,
            // C01 / C05: anything that fits is accepted and copied verbatim
            str_bytes(v).len() <= N ==> r is Ok && r->Ok_0.bytes() == str_bytes(v),
@*/
pub struct StrVisitor<const N: usize>;
impl<'de, const N: usize> serde::de::StrVisitor<'de> for StrVisitor<N> {
    type Value = String<N>;
//@extract dep:heapless/src/de.rs :: ^            fn visit_str<E> :: contracts=visit_str:string_visit_str :: desugar-refpat
}

} // verus!
fn main() {}
