// C10 — each CTAP1 request reaches exactly the authenticator method for its command.
//
// Pasted verbatim from /repo/src/ctap1.rs on every run: `pub enum Request<'a>`,
// `pub enum Response`, `pub trait Authenticator { .. }` (with the default methods `version`
// and `call_ctap1`), the blanket `impl Rpc<..> for A`; `pub trait Rpc` from src/lib.rs.
// Same ghost-state contract as unit c10_dispatch_ctap2.  (the default body of `version()` is dropped in this unit — Verus does
// not interpret byte-string literals; its six bytes are checked by the Kani harness c10_k_ctap1_version — and its
// declaration gets the contract `r == Self::out_version()`, so that the Version arm must call it.)
use vstd::prelude::*;

#[allow(unused_macros)]
macro_rules! debug_now { ($($t:tt)*) => {}; }

verus! {

pub mod register { use vstd::prelude::*; verus! {
    #[verifier::external_body] pub struct Request<'a> { _p: core::marker::PhantomData<&'a ()> }
    #[verifier::external_body] pub struct Response { _p: () } } }
pub mod authenticate { use vstd::prelude::*; verus! {
    #[verifier::external_body] pub struct Request<'a> { _p: core::marker::PhantomData<&'a ()> }
    #[verifier::external_body] pub struct Response { _p: () } } }

pub mod iso7816 {
    use vstd::prelude::*;
    verus! {
//@extract dep:iso7816/src/response/status.rs :: ^pub enum Status\b
    }
}
pub use crate::iso7816::Status as Error;
pub type Result<T> = core::result::Result<T, Error>;

//@extract src/ctap1.rs :: ^pub enum Request<'a> :: noderive
//@extract src/ctap1.rs :: ^pub enum Response\b :: noderive

pub enum Call<'a> {
    Register(register::Request<'a>),
    Authenticate(authenticate::Request<'a>),
}

/*@inject Authenticator
    // ---- ghost state and behaviour functions added by the contract ----
    spec fn log(&self) -> Seq<Call<'static>>;
    spec fn out_register(&self, request: register::Request<'static>) -> Result<register::Response>;
    spec fn out_authenticate(&self, request: authenticate::Request<'static>) -> Result<authenticate::Response>;
    /// what this authenticator's `version()` returns (it may override the default)
    spec fn out_version() -> [u8; 6];
@*/
/*@contract version
        ensures r == Self::out_version(),
@*/
/*@contract register
        ensures final(self).log() == old(self).log().push(Call::Register(*request)), r == old(self).out_register(*request),
@*/
/*@contract authenticate
        ensures final(self).log() == old(self).log().push(Call::Authenticate(*request)), r == old(self).out_authenticate(*request),
@*/
/*@contract call_ctap1
        ensures
            // exactly the handler of this command, exactly once, parameters unchanged; Version calls none
            final(self).log() == (match *request {
                Request::Register(p) => old(self).log().push(Call::Register(p)),
                Request::Authenticate(p) => old(self).log().push(Call::Authenticate(p)),
                Request::Version => old(self).log(),
            }),
            // its result wrapped as the response of the same command, or its error unchanged; Version cannot fail
            match *request {
                Request::Register(p) => r == (match old(self).out_register(p) {
                    Ok(x) => Ok::<Response, Error>(Response::Register(x)), Err(e) => Err(e) }),
                Request::Authenticate(p) => r == (match old(self).out_authenticate(p) {
                    Ok(x) => Ok::<Response, Error>(Response::Authenticate(x)), Err(e) => Err(e) }),
                // Version cannot fail and carries what the authenticator's own `version()` returns
                Request::Version => r == Ok::<Response, Error>(Response::Version(Self::out_version())),
            },
@*/
//@extract src/ctap1.rs :: ^pub trait Authenticator \{ :: inject=Authenticator :: drop-body=version :: contracts=register,authenticate,version,call_ctap1

//@extract src/lib.rs :: ^pub trait Rpc<Error, Request, Response>
/*@contract call
        ensures
            final(self).log() == (match *request {
                Request::Register(p) => old(self).log().push(Call::Register(p)),
                Request::Authenticate(p) => old(self).log().push(Call::Authenticate(p)),
                Request::Version => old(self).log(),
            }),
            match *request {
                Request::Register(p) => r == (match old(self).out_register(p) {
                    Ok(x) => Ok::<Response, Error>(Response::Register(x)), Err(e) => Err(e) }),
                Request::Authenticate(p) => r == (match old(self).out_authenticate(p) {
                    Ok(x) => Ok::<Response, Error>(Response::Authenticate(x)), Err(e) => Err(e) }),
                Request::Version => r == Ok::<Response, Error>(Response::Version(A::out_version())),
            },
@*/
//@extract src/ctap1.rs :: ^impl<A: Authenticator> crate::Rpc<Error, Request<'_>, Response> for A :: contracts=call

} // verus!
fn main() {}
