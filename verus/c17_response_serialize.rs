// C17 / C02 (glue) — `ctap2::Response::serialize::<N>`: the complete message or the single status
// byte 0x7F, for EVERY capacity N >= 1, every response kind and every previous buffer content.
//
// Pasted verbatim from /repo/src/ctap2.rs on every run: `pub enum Response`, `pub enum Error`,
// `impl Response { fn serialize<const N: usize> }`.
// Scaffolding: opaque response payload types, the assumed container contract
// (inc/heapless_contract.rs: resize_default, capacity, split_first_mut) and the assumed contract of
// `cbor_smol::cbor_serialize` (A6): it writes the encoding `spec_cbor_enc(object)` at the start of the
// buffer and returns that prefix iff it fits, else fails. The encoding itself is uninterpreted
// (its content is C02/C03's business — Engine D and the Kani harnesses).
use vstd::prelude::*;
use vstd::std_specs::cmp::PartialEqSpec;

verus! {

//@include inc/heapless_contract.rs
pub use crate::heapless::Vec;

pub mod serde {
    pub trait Serialize {}
}

pub mod cbor_smol {
    use vstd::prelude::*;
    verus! {
//@extract dep:cbor-smol/src/error.rs :: ^pub enum Error\b
    pub type Result<T> = core::result::Result<T, Error>;

    /// the CBOR encoding of a value (uninterpreted)
    pub uninterp spec fn spec_cbor_enc<T: ?Sized>(v: &T) -> Seq<u8>;

    #[verifier::external_body]
    pub fn cbor_serialize<'a, T: ?Sized + crate::serde::Serialize>(object: &T, buffer: &'a mut [u8]) -> (r: Result<&'a [u8]>)
        ensures
            final(buffer)@.len() == old(buffer)@.len(),
            r is Ok <==> spec_cbor_enc(object).len() <= old(buffer)@.len(),
            r is Ok ==> r->Ok_0@ == spec_cbor_enc(object)
                && (forall|i: int| 0 <= i < spec_cbor_enc(object).len() ==> #[trigger] final(buffer)@[i] == spec_cbor_enc(object)[i]),
    { unimplemented!() }
    }
}

// `s == [0xA0]` (byte slice against a byte-array literal): trusted wrapper, see lib/verus_engine.py `slice-eq`
#[verifier::external_body]
pub fn slice_eq__<const K: usize>(a: &[u8], b: &[u8; K]) -> (r: bool)
    ensures r <==> (a@.len() == K && forall|i: int| 0 <= i < K ==> a@[i] == b@[i]),
{
    a == b
}

// ---- opaque payload types (scaffolding) -------------------------------------------------
pub mod make_credential { use vstd::prelude::*; verus! {
    #[verifier::external_body] pub struct Response { _p: () } impl crate::serde::Serialize for Response {} } }
// the GetAssertion response is the real declaration (its members are visible to the code under contract);
// its leaf types are opaque
pub mod leaf { use vstd::prelude::*; verus! {
    #[verifier::external_body] pub struct PublicKeyCredentialDescriptor { _p: () }
    #[verifier::external_body] pub struct PublicKeyCredentialUserEntity { _p: () }
    #[verifier::external_body] pub struct UnsignedExtensionOutputs { _p: () }
    #[verifier::external_body] pub struct AttestationStatement { _p: () }
    #[verifier::external_body] pub struct ByteArray<const N: usize> { _p: () }
    impl Clone for PublicKeyCredentialDescriptor { #[verifier::external_body] fn clone(&self) -> (r: Self) ensures r == *self { unimplemented!() } }
    impl Clone for PublicKeyCredentialUserEntity { #[verifier::external_body] fn clone(&self) -> (r: Self) ensures r == *self { unimplemented!() } }
    impl Clone for UnsignedExtensionOutputs { #[verifier::external_body] fn clone(&self) -> (r: Self) ensures r == *self { unimplemented!() } }
    impl Clone for AttestationStatement { #[verifier::external_body] fn clone(&self) -> (r: Self) ensures r == *self { unimplemented!() } }
    impl<const N: usize> Clone for ByteArray<N> { #[verifier::external_body] fn clone(&self) -> (r: Self) ensures r == *self { unimplemented!() } }
    impl<const N: usize> Clone for crate::heapless_bytes::Bytes<N> { #[verifier::external_body] fn clone(&self) -> (r: Self) ensures r == *self { unimplemented!() } }
} }
pub mod sizes { use vstd::prelude::*; verus! {
//@extract src/sizes.rs :: ^pub const AUTHENTICATOR_DATA_LENGTH
//@extract src/sizes.rs :: ^pub const ASN1_SIGNATURE_LENGTH
} }
pub mod get_assertion {
    use vstd::prelude::*;
    use crate::heapless_bytes::Bytes;
    use crate::leaf::*;
    use crate::sizes::*;
    verus! {
//@extract src/ctap2/get_assertion.rs :: ^pub struct Response\b :: derive-only=Clone
    impl crate::serde::Serialize for Response {}
    }
}
pub mod get_info { use vstd::prelude::*; verus! {
    #[verifier::external_body] pub struct Response { _p: () } impl crate::serde::Serialize for Response {} } }
pub mod client_pin { use vstd::prelude::*; verus! {
    #[verifier::external_body] pub struct Response { _p: () } impl crate::serde::Serialize for Response {} } }
pub mod credential_management { use vstd::prelude::*; verus! {
    #[verifier::external_body] pub struct Response { _p: () } impl crate::serde::Serialize for Response {} } }
pub mod large_blobs { use vstd::prelude::*; verus! {
    #[verifier::external_body] pub struct Response { _p: () } impl crate::serde::Serialize for Response {} } }

//@extract src/ctap2.rs :: ^pub enum Error\b
//@extract src/ctap2.rs :: ^pub enum Response\b :: noderive

/// The CBOR body of a response: the encoding of its member map; parameter-less responses have none.
/// GetNextAssertion has the body of the same GetAssertion response.
pub open spec fn spec_body(resp: Response) -> Seq<u8> {
    match resp {
        Response::MakeCredential(r) => cbor_smol::spec_cbor_enc(&r),
        Response::GetAssertion(r) => cbor_smol::spec_cbor_enc(&r),
        Response::GetNextAssertion(r) => cbor_smol::spec_cbor_enc(&r),
        Response::GetInfo(r) => cbor_smol::spec_cbor_enc(&r),
        Response::ClientPin(r) => cbor_smol::spec_cbor_enc(&r),
        Response::CredentialManagement(r) => cbor_smol::spec_cbor_enc(&r),
        Response::LargeBlobs(r) => cbor_smol::spec_cbor_enc(&r),
        Response::Reset | Response::Selection | Response::Vendor => Seq::<u8>::empty(),
    }
}

/// the one-byte encoding A0 of a map without members
pub open spec fn is_empty_map(body: Seq<u8>) -> bool {
    body.len() == 1 && body[0] == 0xA0u8
}

/// The complete message: status 0x00 plus the body; a response with no member set (empty map A0)
/// and the parameter-less responses are the status byte alone.
pub open spec fn spec_message(resp: Response) -> Seq<u8> {
    let body = spec_body(resp);
    if is_empty_map(body) || body.len() == 0 { seq![0x00u8] } else { seq![0x00u8] + body }
}

/*@contract serialize
        requires
            // "every output buffer capacity of at least one byte"
            N >= 1,
            // the one input recorded in known_findings.txt (C17): capacity 1 and a map-bodied response with no member;
            // it is demonstrated by the Kani harness c17_k_capacity_one_memberless_response and excluded here so that
            // every OTHER violation of the contract is still reported
            !(N == 1 && is_empty_map(spec_body(*self))),
        ensures
            // the complete message when it fits, else exactly the status byte 0x7F (Other); never truncated,
            // and independent of what the buffer held before
            spec_message(*self).len() <= N ==> final(buffer)@ =~= spec_message(*self),
            spec_message(*self).len() > N ==> final(buffer)@ =~= seq![0x7Fu8],
@*/
//@extract src/ctap2.rs :: ^impl Response \{ :: contracts=serialize :: slice-eq

/// C02: GetNextAssertion encodes exactly like GetAssertion (same response value => same message)
pub proof fn ob_C02_get_next_assertion_like_get_assertion(r: get_assertion::Response)
    ensures spec_message(Response::GetNextAssertion(r)) == spec_message(Response::GetAssertion(r)),
{
}

/// C02: parameter-less responses are the status byte alone
pub proof fn ob_C02_parameterless_is_status_byte_alone()
    ensures
        spec_message(Response::Reset) == seq![0x00u8],
        spec_message(Response::Selection) == seq![0x00u8],
        spec_message(Response::Vendor) == seq![0x00u8],
        Error::Other as u8 == 0x7F,
{
}

} // verus!
fn main() {}
