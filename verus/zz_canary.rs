// Vacuity canary: this file contains obligations that are FALSE. The driver runs it in the thorough
// tier and treats a verifier that accepts any of them as a broken check (exit 2).
use vstd::prelude::*;
verus! {
pub proof fn canary_must_fail_1()
    ensures 1int + 1int == 3int,
{
}
pub open spec fn canon_lt_canary(a: Seq<u8>, b: Seq<u8>) -> bool { a.len() < b.len() }
pub proof fn canary_must_fail_2()
    ensures canon_lt_canary(seq![1u8, 2u8], seq![3u8]),
{
}
pub fn canary_must_fail_3(x: u8) -> (r: u8)
    ensures r > x,
{
    x
}
} // verus!
fn main() {}
