// C05 / C11 / C01 (command switch) — `ctap2::Request::deserialize` and the status mapping.
//
// Pasted verbatim from /repo on every run:
//   src/operation.rs (whole file, as `mod operation`),
//   src/ctap2.rs: `pub enum Request<'a>`, `pub enum CtapMappingError`,
//                 `impl From<CtapMappingError> for Error`, `impl<'a> Request<'a> { fn deserialize }`,
//                 `pub enum Error`,
//   cbor-smol (pinned in Cargo.lock, read from the offline registry): `pub enum Error`.
// Scaffolding written here (NOT the code under verification): opaque payload types
// `make_credential::Request<'a>` …, no-op logging macros (they expand to nothing without
// delog's log-* features), and the *assumed contract* of the dependency function
// `cbor_smol::cbor_deserialize::<T>` as an uninterpreted spec function of the payload bytes.
//
// The postcondition of `deserialize` is written from the property statements (C05, C11, C01).
use vstd::prelude::*;
use vstd::std_specs::convert::*;

#[allow(unused_macros)]
macro_rules! debug_now { ($($t:tt)*) => {}; }
#[allow(unused_macros)]
macro_rules! info { ($($t:tt)*) => {}; }

verus! {

pub mod cbor_smol {
    use vstd::prelude::*;
    verus! {
//@extract dep:cbor-smol/src/error.rs :: ^pub enum Error\b
    }
}

pub mod operation {
    use vstd::prelude::*;
    use vstd::std_specs::convert::*;
    verus! {
//@extract-file src/operation.rs

//@include inc/operation_contract.rs
    }
}

pub use crate::operation::{Operation, VendorOperation};

pub mod sizes { use vstd::prelude::*; verus! {
//@extract-file src/sizes.rs
} }
pub use crate::sizes::*;

// ---- opaque payload types (scaffolding) -------------------------------------------------
pub mod make_credential { use vstd::prelude::*; verus! {
    #[verifier::external_body] pub struct Request<'a> { _p: core::marker::PhantomData<&'a ()> } } }
pub mod get_assertion { use vstd::prelude::*; verus! {
    #[verifier::external_body] pub struct Request<'a> { _p: core::marker::PhantomData<&'a ()> } } }
pub mod client_pin { use vstd::prelude::*; verus! {
    #[verifier::external_body] pub struct Request<'a> { _p: core::marker::PhantomData<&'a ()> } } }
pub mod credential_management { use vstd::prelude::*; verus! {
    #[verifier::external_body] pub struct Request<'a> { _p: core::marker::PhantomData<&'a ()> } } }
pub mod large_blobs { use vstd::prelude::*; verus! {
    #[verifier::external_body] pub struct Request<'a> { _p: core::marker::PhantomData<&'a ()> } } }

pub type Result<T> = core::result::Result<T, Error>;

// ---- assumed contract of the dependency function cbor_smol::cbor_deserialize (A8) ------
/// What the CBOR decoder returns for payload bytes `b` when asked for a `T`: uninterpreted.
pub uninterp spec fn spec_cbor<T>(b: Seq<u8>) -> core::result::Result<T, cbor_smol::Error>;

#[verifier::external_body]
pub fn cbor_deserialize<'de, T>(buffer: &'de [u8]) -> (r: core::result::Result<T, cbor_smol::Error>)
    ensures r == spec_cbor::<T>(buffer@),
{
    unimplemented!()
}

// ---- the real code ------------------------------------------------------------------------
//@extract src/ctap2.rs :: ^pub enum Request<'a> :: noderive
//@extract src/ctap2.rs :: ^pub enum CtapMappingError
//@extract src/ctap2.rs :: ^impl From<CtapMappingError> for Error
//@extract src/ctap2.rs :: ^pub enum Error\b

// ---- contract: status mapping (C05) -------------------------------------------------------
/// C05: the status a mapping error calls for.
pub open spec fn spec_status(e: CtapMappingError) -> Error {
    match e {
        CtapMappingError::InvalidCommand(_) => Error::InvalidCommand,
        CtapMappingError::ParsingError(c) =>
            if c == cbor_smol::Error::SerdeMissingField { Error::MissingParameter } else { Error::InvalidCbor },
    }
}

impl FromSpecImpl<CtapMappingError> for Error {
    open spec fn obeys_from_spec() -> bool { true }
    open spec fn from_spec(e: CtapMappingError) -> Error { spec_status(e) }
}

pub proof fn ob_C05_three_codes(e: CtapMappingError)
    ensures
        spec_status(e) as u8 == 0x01 || spec_status(e) as u8 == 0x12 || spec_status(e) as u8 == 0x14,
        e is InvalidCommand ==> spec_status(e) as u8 == 0x01,
        (e is ParsingError && e->ParsingError_0 == cbor_smol::Error::SerdeMissingField) ==> spec_status(e) as u8 == 0x14,
        (e is ParsingError && e->ParsingError_0 != cbor_smol::Error::SerdeMissingField) ==> spec_status(e) as u8 == 0x12,
{
}

pub open spec fn spec_parse_status(c: cbor_smol::Error) -> Error {
    spec_status(CtapMappingError::ParsingError(c))
}

// ---- contract: Request::deserialize -------------------------------------------------------
/// The decision table of C05 / C11 / C01 for a whole message `m`.
pub open spec fn spec_deserialize<'a>(m: Seq<u8>) -> Result<Request<'a>> {
    if m.len() == 0 {
        // an empty message is malformed CBOR
        Err(Error::InvalidCbor)
    } else {
        let payload = m.subrange(1, m.len() as int);
        match operation::spec_decode(m[0]) {
            Err(_) => Err(Error::InvalidCommand),
            Ok(op) => match op {
                Operation::MakeCredential => match spec_cbor::<make_credential::Request<'a>>(payload) {
                    Ok(r) => Ok(Request::MakeCredential(r)),
                    Err(c) => Err(spec_parse_status(c)),
                },
                Operation::GetAssertion => match spec_cbor::<get_assertion::Request<'a>>(payload) {
                    Ok(r) => Ok(Request::GetAssertion(r)),
                    Err(c) => Err(spec_parse_status(c)),
                },
                Operation::ClientPin => match spec_cbor::<client_pin::Request<'a>>(payload) {
                    Ok(r) => Ok(Request::ClientPin(r)),
                    Err(c) => Err(spec_parse_status(c)),
                },
                // 0x41 decodes exactly like 0x0A
                Operation::CredentialManagement | Operation::PreviewCredentialManagement =>
                    match spec_cbor::<credential_management::Request<'a>>(payload) {
                        Ok(r) => Ok(Request::CredentialManagement(r)),
                        Err(c) => Err(spec_parse_status(c)),
                    },
                Operation::LargeBlobs => match spec_cbor::<large_blobs::Request<'a>>(payload) {
                    Ok(r) => Ok(Request::LargeBlobs(r)),
                    Err(c) => Err(spec_parse_status(c)),
                },
                // parameter-less commands decode from their byte alone
                Operation::GetInfo => Ok(Request::GetInfo),
                Operation::GetNextAssertion => Ok(Request::GetNextAssertion),
                Operation::Reset => Ok(Request::Reset),
                Operation::Selection => Ok(Request::Selection),
                Operation::Vendor(v) => Ok(Request::Vendor(v)),
                // recognised but unsupported
                Operation::BioEnrollment | Operation::PreviewBioEnrollment | Operation::Config =>
                    Err(Error::InvalidCommand),
            },
        }
    }
}

/*@contract deserialize
        ensures r == spec_deserialize::<'a>(data@),
@*/
//@extract src/ctap2.rs :: ^impl<'a> Request<'a> \{ :: contracts=deserialize :: desugar-refpat

// ---- property lemmas over the contract -----------------------------------------------------
/// C05: whatever the decoder returns, a rejected request reports one of exactly three codes.
pub proof fn ob_C05_rejected_status_in_three_codes<'a>(m: Seq<u8>)
    ensures spec_deserialize::<'a>(m) is Err ==> {
        let e = spec_deserialize::<'a>(m)->Err_0;
        e as u8 == 0x01 || e as u8 == 0x12 || e as u8 == 0x14
    },
{
}

/// C05/C11: unassigned or unsupported command byte => InvalidCommand whatever follows; empty => InvalidCbor.
pub proof fn ob_C05_C11_invalid_command<'a>(m: Seq<u8>)
    requires m.len() >= 1,
    ensures
        (operation::spec_decode(m[0]) is Err || m[0] == 0x09 || m[0] == 0x0D || m[0] == 0x40)
            ==> spec_deserialize::<'a>(m) == Err::<Request<'a>, Error>(Error::InvalidCommand),
        spec_deserialize::<'a>(Seq::<u8>::empty()) == Err::<Request<'a>, Error>(Error::InvalidCbor),
        Error::InvalidCommand as u8 == 0x01,
        Error::InvalidCbor as u8 == 0x12,
        Error::MissingParameter as u8 == 0x14,
{
}

/// C11: commands without parameters decode from their byte alone, whatever bytes follow.
pub proof fn ob_C11_parameterless_ignore_tail<'a>(m: Seq<u8>)
    requires m.len() >= 1,
    ensures
        m[0] == 0x04 ==> spec_deserialize::<'a>(m) == Ok::<Request<'a>, Error>(Request::GetInfo),
        m[0] == 0x08 ==> spec_deserialize::<'a>(m) == Ok::<Request<'a>, Error>(Request::GetNextAssertion),
        m[0] == 0x07 ==> spec_deserialize::<'a>(m) == Ok::<Request<'a>, Error>(Request::Reset),
        m[0] == 0x0B ==> spec_deserialize::<'a>(m) == Ok::<Request<'a>, Error>(Request::Selection),
        0x42 <= m[0] <= 0x7F ==> spec_deserialize::<'a>(m)
            == Ok::<Request<'a>, Error>(Request::Vendor(VendorOperation::mk(m[0]))),
{
}

/// C11: 0x41 decodes exactly like 0x0A on the same payload.
pub proof fn ob_C11_preview_cm_alias<'a>(m1: Seq<u8>, m2: Seq<u8>)
    requires m1.len() >= 1, m2.len() == m1.len(), m1[0] == 0x0A, m2[0] == 0x41,
        m1.subrange(1, m1.len() as int) == m2.subrange(1, m2.len() as int),
    ensures spec_deserialize::<'a>(m1) == spec_deserialize::<'a>(m2),
{
}

/// C01 (switch): each parameter-bearing byte hands exactly `data[1..]` to the decoder of its
/// own command and wraps the result in the same-named variant; C05: a decoder error is mapped
/// by the status table (missing field => 0x14, anything else => 0x12).
pub proof fn ob_C01_switch<'a>(m: Seq<u8>)
    requires m.len() >= 1,
    ensures
        m[0] == 0x01 ==> spec_deserialize::<'a>(m) == (match spec_cbor::<make_credential::Request<'a>>(m.subrange(1, m.len() as int)) {
            Ok(r) => Ok::<Request<'a>, Error>(Request::MakeCredential(r)), Err(c) => Err(spec_parse_status(c)) }),
        m[0] == 0x02 ==> spec_deserialize::<'a>(m) == (match spec_cbor::<get_assertion::Request<'a>>(m.subrange(1, m.len() as int)) {
            Ok(r) => Ok::<Request<'a>, Error>(Request::GetAssertion(r)), Err(c) => Err(spec_parse_status(c)) }),
        m[0] == 0x06 ==> spec_deserialize::<'a>(m) == (match spec_cbor::<client_pin::Request<'a>>(m.subrange(1, m.len() as int)) {
            Ok(r) => Ok::<Request<'a>, Error>(Request::ClientPin(r)), Err(c) => Err(spec_parse_status(c)) }),
        m[0] == 0x0A ==> spec_deserialize::<'a>(m) == (match spec_cbor::<credential_management::Request<'a>>(m.subrange(1, m.len() as int)) {
            Ok(r) => Ok::<Request<'a>, Error>(Request::CredentialManagement(r)), Err(c) => Err(spec_parse_status(c)) }),
        m[0] == 0x0C ==> spec_deserialize::<'a>(m) == (match spec_cbor::<large_blobs::Request<'a>>(m.subrange(1, m.len() as int)) {
            Ok(r) => Ok::<Request<'a>, Error>(Request::LargeBlobs(r)), Err(c) => Err(spec_parse_status(c)) }),
{
}

} // verus!

fn main() {}
