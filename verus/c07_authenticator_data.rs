// C07 — authenticator data is laid out byte-for-byte as WebAuthn §6.1 specifies.
//
// Pasted verbatim from /repo on every run:
//   src/sizes.rs               AUTHENTICATOR_DATA_LENGTH
//   src/ctap2.rs               pub enum Error, pub trait SerializeAttestedCredentialData,
//                              pub struct AuthenticatorData<'a, A, E>, pub type SerializedAuthenticatorData,
//                              impl<..> AuthenticatorData<'a, A, E> { fn serialize }
//   src/ctap2/make_credential.rs  pub struct AttestedCredentialData<'a>, its impl of the trait
//   src/ctap2/get_assertion.rs    pub struct NoAttestedCredentialData, its impl of the trait
// Proved for ALL lengths (aaguid, credential id incl. 65535/65536, public key, extension bytes),
// all hashes, flags and counters — no bound — against the assumed container contracts
// (inc/heapless_contract.rs) and an uninterpreted CBOR encoding of the extension map.
use vstd::prelude::*;
use vstd::std_specs::convert::*;

verus! {

//@include inc/heapless_contract.rs
//@include inc/int_bytes_contract.rs

pub use crate::heapless_bytes::Bytes;

pub mod serde {
    pub trait Serialize {}
}

// ---- assumed contract of cbor_smol::cbor_serialize_to into a Bytes<N> writer (A6) --------
pub mod cbor_smol {
    use vstd::prelude::*;
    use crate::heapless_bytes::Bytes;
    verus! {
//@extract dep:cbor-smol/src/error.rs :: ^pub enum Error\b
    /// the CBOR encoding of a value: uninterpreted here (its canonical form is C03's business)
    pub uninterp spec fn spec_cbor_enc<T: ?Sized>(v: &T) -> Seq<u8>;

    #[verifier::external_body]
    pub fn cbor_serialize_to<T: ?Sized + crate::serde::Serialize, const N: usize>(object: &T, writer: &mut Bytes<N>) -> (r: Result<usize, Error>)
        requires old(writer)@.len() <= N,
        ensures
            final(writer)@.len() <= N,
            r is Ok <==> old(writer)@.len() + spec_cbor_enc(object).len() <= N,
            r is Ok ==> final(writer)@ == old(writer)@ + spec_cbor_enc(object),
    { unimplemented!() }
    }
}

// ---- scaffolding for the bitflags-generated flag set ---------------------------------------
#[verifier::external_body]
pub struct AuthenticatorDataFlags { _bits: u8 }
impl AuthenticatorDataFlags {
    pub uninterp spec fn spec_bits(&self) -> u8;
    #[verifier::external_body]
    pub fn bits(&self) -> (r: u8) ensures r == self.spec_bits() { unimplemented!() }
}

pub type Result<T> = core::result::Result<T, Error>;
pub mod sizes { use vstd::prelude::*; verus! {
//@extract-file src/sizes.rs
} }
pub use crate::sizes::*;
//@extract src/ctap2.rs :: ^pub enum Error\b

// ---- contract of the trait: what an attested-credential-data serialiser must do -------------
/*@inject SerializeAttestedCredentialData
    /// the bytes this part contributes (WebAuthn §6.5.1 layout for the real implementation)
    spec fn att_bytes(&self) -> Seq<u8>;
    /// can this part be represented at all (credential id length fits 16 bits)
    spec fn att_ok(&self) -> bool;
@*/
/*@contract trait_serialize
        requires old(buffer)@.len() <= AUTHENTICATOR_DATA_LENGTH,
        ensures
            final(buffer)@.len() <= AUTHENTICATOR_DATA_LENGTH,
            r is Ok <==> (self.att_ok() && old(buffer)@.len() + self.att_bytes().len() <= AUTHENTICATOR_DATA_LENGTH),
            r is Ok ==> final(buffer)@ == old(buffer)@ + self.att_bytes(),
@*/
//@extract src/ctap2.rs :: ^pub trait SerializeAttestedCredentialData :: inject=SerializeAttestedCredentialData :: contracts=serialize:trait_serialize
//@extract src/ctap2.rs :: ^pub struct AuthenticatorData<'a, A, E> :: noderive
//@extract src/ctap2.rs :: ^pub type SerializedAuthenticatorData

/// WebAuthn §6.1: rpIdHash (32) || flags (1) || signCount (4, big endian) || [attestedCredentialData] || [extensions]
pub open spec fn authdata_layout<'a, A: SerializeAttestedCredentialData, E: serde::Serialize>(d: &AuthenticatorData<'a, A, E>) -> Seq<u8> {
    d.rp_id_hash@ + seq![d.flags.spec_bits()] + be32(d.sign_count)
        + (match d.attested_credential_data { Some(a) => a.att_bytes(), None => Seq::<u8>::empty() })
        + (match d.extensions { Some(e) => cbor_smol::spec_cbor_enc(&e), None => Seq::<u8>::empty() })
}

pub open spec fn authdata_fits<'a, A: SerializeAttestedCredentialData, E: serde::Serialize>(d: &AuthenticatorData<'a, A, E>) -> bool {
    authdata_layout(d).len() <= AUTHENTICATOR_DATA_LENGTH
        && (match d.attested_credential_data { Some(a) => a.att_ok(), None => true })
}

/*@contract authdata_serialize
        ensures
            // fails iff the total exceeds the capacity or the credential id cannot be represented
            r is Ok <==> authdata_fits(self),
            // never shortened or partially written: on success exactly the layout
            r is Ok ==> r->Ok_0@ == authdata_layout(self),
@*/
//@extract src/ctap2.rs :: ^impl<'a, A: SerializeAttestedCredentialData, E: serde::Serialize> AuthenticatorData<'a, A, E> :: contracts=serialize:authdata_serialize :: desugar-refpat :: int-bytes

// ---- the two real implementations of the trait ------------------------------------------------
pub mod make_credential {
    use vstd::prelude::*;
    use vstd::std_specs::convert::*;
    use super::{Error, be16, IntBytes2, IntBytes4};
    verus! {
//@extract src/ctap2/make_credential.rs :: ^pub struct AttestedCredentialData<'a> :: noderive

/*@implspec AttestedCredentialData
    /// WebAuthn §6.5.1: aaguid || credentialIdLength (2 bytes big endian) || credentialId || credentialPublicKey
    open spec fn att_bytes(&self) -> Seq<u8> {
        self.aaguid@ + be16(self.credential_id@.len() as u16) + self.credential_id@ + self.credential_public_key@
    }
    open spec fn att_ok(&self) -> bool { self.credential_id@.len() <= 65535 }
@*/
//@extract src/ctap2/make_credential.rs :: ^impl<'a> super::SerializeAttestedCredentialData for AttestedCredentialData<'a> :: inject=AttestedCredentialData :: desugar-refpat :: int-bytes
    }
}

pub mod get_assertion {
    use vstd::prelude::*;
    use super::Result;
    verus! {
//@extract src/ctap2/get_assertion.rs :: ^pub struct NoAttestedCredentialData
/*@implspec NoAttestedCredentialData
    open spec fn att_bytes(&self) -> Seq<u8> { Seq::<u8>::empty() }
    open spec fn att_ok(&self) -> bool { true }
@*/
//@extract src/ctap2/get_assertion.rs :: ^impl super::SerializeAttestedCredentialData for NoAttestedCredentialData :: inject=NoAttestedCredentialData
    }
}

/// the capacity named by the property: 676 bytes
pub proof fn ob_C07_capacity_is_676()
    ensures AUTHENTICATOR_DATA_LENGTH == 676,
{
}

/// the fixed part is 37 bytes; the four named flag bits are checked on the real bitflags type by Kani (c07_k_flag_bits)
pub proof fn ob_C07_fixed_part_is_37_bytes(h: Seq<u8>, f: u8, c: u32)
    requires h.len() == 32,
    ensures (h + seq![f] + be32(c)).len() == 37,
{
}

} // verus!
fn main() {}
