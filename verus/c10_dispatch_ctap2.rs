// C10 — each CTAP2 request reaches exactly the authenticator method for its command.
//
// Pasted verbatim from /repo on every run: `pub enum Request<'a>`, `pub enum Response`,
// `pub enum Error`, `pub trait Authenticator { .. }` (with the default methods `large_blobs` and
// `call_ctap2`), the blanket `impl Rpc<..> for A` from src/ctap2.rs, `pub trait Rpc` from
// src/lib.rs and src/operation.rs.
//
// Contract (ghost state): the trait gets a ghost call log `log()` and, per handler, an
// uninterpreted outcome function of the pre-state and the request (`out_*`): "every
// authenticator behaviour" = every choice of these functions.  Each handler declaration gets
//   ensures final(self).log() == old(self).log().push(<its call record>), r == <its outcome>
// and the real default method `call_ctap2` (body untouched) must then satisfy
//   final(self).log() == old(self).log().push(call_of(*request))       -- exactly one handler,
//                                                                         the right one, once,
//                                                                         parameters unchanged
//   r == wrap(old(self), *request)                                     -- same-named response
//                                                                         variant / error unchanged
// Scaffolding (not under verification): opaque payload types, no-op logging macros, and the
// core-library contract `Result::inspect_err` returns its receiver (assume_specification).
use vstd::prelude::*;
use vstd::std_specs::convert::*;

#[allow(unused_macros)]
macro_rules! debug_now { ($($t:tt)*) => {}; }
#[allow(unused_macros)]
macro_rules! debug { ($($t:tt)*) => {}; }

verus! {

pub mod operation {
    use vstd::prelude::*;
    use vstd::std_specs::convert::*;
    verus! {
//@extract-file src/operation.rs
//@include inc/operation_contract.rs
    }
}
pub use crate::operation::{Operation, VendorOperation};

// ---- opaque payload types (scaffolding) -------------------------------------------------
pub mod make_credential { use vstd::prelude::*; verus! {
    #[verifier::external_body] pub struct Request<'a> { _p: core::marker::PhantomData<&'a ()> }
    #[verifier::external_body] pub struct Response { _p: () } } }
pub mod get_assertion { use vstd::prelude::*; verus! {
    #[verifier::external_body] pub struct Request<'a> { _p: core::marker::PhantomData<&'a ()> }
    #[verifier::external_body] pub struct Response { _p: () } } }
pub mod client_pin { use vstd::prelude::*; verus! {
    #[verifier::external_body] pub struct Request<'a> { _p: core::marker::PhantomData<&'a ()> }
    #[verifier::external_body] pub struct Response { _p: () } } }
pub mod credential_management { use vstd::prelude::*; verus! {
    #[verifier::external_body] pub struct Request<'a> { _p: core::marker::PhantomData<&'a ()> }
    #[verifier::external_body] pub struct Response { _p: () } } }
// the LargeBlobs request is the real declaration (its members are visible to the dispatch code); leaf type opaque
pub mod serde_bytes { use vstd::prelude::*; verus! {
    #[verifier::external_body] pub struct Bytes { _p: () } } }
pub mod sizes { use vstd::prelude::*; verus! {
//@extract-file src/sizes.rs
} }
pub use crate::sizes::*;
pub mod large_blobs {
    use vstd::prelude::*;
    use crate::serde_bytes;
    verus! {
//@extract src/ctap2/large_blobs.rs :: ^pub struct Request<'a> :: noderive
    #[verifier::external_body] pub struct Response { _p: () }
    }
}
pub mod get_info { use vstd::prelude::*; verus! {
    #[verifier::external_body] pub struct Response { _p: () } } }

pub type Result<T> = core::result::Result<T, Error>;

//@include inc/core_contract.rs

// core: `Result::inspect_err` calls the closure on the error and returns the receiver unchanged.
pub assume_specification<T, E, F: FnOnce(&E)>[ core::result::Result::<T, E>::inspect_err ](this: core::result::Result<T, E>, f: F) -> (r: core::result::Result<T, E>)
    ensures r == this;

//@extract src/ctap2.rs :: ^pub enum Error\b
//@extract src/ctap2.rs :: ^pub enum Request<'a> :: noderive
//@extract src/ctap2.rs :: ^pub enum Response\b :: noderive

// ---- ghost state: the call record ---------------------------------------------------------
pub enum Call<'a> {
    GetInfo,
    MakeCredential(make_credential::Request<'a>),
    GetAssertion(get_assertion::Request<'a>),
    GetNextAssertion,
    Reset,
    ClientPin(client_pin::Request<'a>),
    CredentialManagement(credential_management::Request<'a>),
    Selection,
    Vendor(VendorOperation),
    LargeBlobs(large_blobs::Request<'a>),
}

/// The one handler call a request must produce, with the request's own parameters.
pub open spec fn call_of<'a>(req: Request<'a>) -> Call<'a> {
    match req {
        Request::GetInfo => Call::GetInfo,
        Request::MakeCredential(p) => Call::MakeCredential(p),
        Request::GetAssertion(p) => Call::GetAssertion(p),
        Request::GetNextAssertion => Call::GetNextAssertion,
        Request::Reset => Call::Reset,
        Request::ClientPin(p) => Call::ClientPin(p),
        Request::CredentialManagement(p) => Call::CredentialManagement(p),
        Request::Selection => Call::Selection,
        Request::Vendor(op) => Call::Vendor(op),
        Request::LargeBlobs(p) => Call::LargeBlobs(p),
    }
}

/*@inject Authenticator
    // ---- ghost state and behaviour functions added by the contract ----
    /// ghost: the sequence of handler calls made so far
    spec fn log(&self) -> Seq<Call<'static>>;
    /// what each handler returns in a given state for given parameters (arbitrary)
    spec fn out_get_info(&self) -> get_info::Response;
    spec fn out_make_credential(&self, request: make_credential::Request<'static>) -> Result<make_credential::Response>;
    spec fn out_get_assertion(&self, request: get_assertion::Request<'static>) -> Result<get_assertion::Response>;
    spec fn out_get_next_assertion(&self) -> Result<get_assertion::Response>;
    spec fn out_reset(&self) -> Result<()>;
    spec fn out_client_pin(&self, request: client_pin::Request<'static>) -> Result<client_pin::Response>;
    spec fn out_credential_management(&self, request: credential_management::Request<'static>) -> Result<credential_management::Response>;
    spec fn out_selection(&self) -> Result<()>;
    spec fn out_vendor(&self, op: VendorOperation) -> Result<()>;
    spec fn out_large_blobs(&self, request: large_blobs::Request<'static>) -> Result<large_blobs::Response>;
@*/

/*@contract get_info
        ensures final(self).log() == old(self).log().push(Call::GetInfo), r == old(self).out_get_info(),
@*/
/*@contract make_credential
        ensures final(self).log() == old(self).log().push(Call::MakeCredential(*request)), r == old(self).out_make_credential(*request),
@*/
/*@contract get_assertion
        ensures final(self).log() == old(self).log().push(Call::GetAssertion(*request)), r == old(self).out_get_assertion(*request),
@*/
/*@contract get_next_assertion
        ensures final(self).log() == old(self).log().push(Call::GetNextAssertion), r == old(self).out_get_next_assertion(),
@*/
/*@contract reset
        ensures final(self).log() == old(self).log().push(Call::Reset), r == old(self).out_reset(),
@*/
/*@contract client_pin
        ensures final(self).log() == old(self).log().push(Call::ClientPin(*request)), r == old(self).out_client_pin(*request),
@*/
/*@contract credential_management
        ensures final(self).log() == old(self).log().push(Call::CredentialManagement(*request)), r == old(self).out_credential_management(*request),
@*/
/*@contract selection
        ensures final(self).log() == old(self).log().push(Call::Selection), r == old(self).out_selection(),
@*/
/*@contract vendor
        ensures final(self).log() == old(self).log().push(Call::Vendor(op)), r == old(self).out_vendor(op),
@*/
/*@contract large_blobs
        ensures final(self).log() == old(self).log().push(Call::LargeBlobs(*request)), r == old(self).out_large_blobs(*request),
@*/
/*@contract call_ctap2
        ensures
            // exactly one handler, the one of this command, exactly once, parameters unchanged
            final(self).log() == old(self).log().push(call_of(*request)),
            // its result wrapped as the response of the same command, or its error unchanged
            // (the expected response: the handler's result wrapped in the same-named variant)
            r == (match *request {
                Request::GetInfo => Ok::<Response, Error>(Response::GetInfo(old(self).out_get_info())),
                Request::MakeCredential(p) => match old(self).out_make_credential(p) {
                    Ok(x) => Ok(Response::MakeCredential(x)), Err(e) => Err(e) },
                Request::GetAssertion(p) => match old(self).out_get_assertion(p) {
                    Ok(x) => Ok(Response::GetAssertion(x)), Err(e) => Err(e) },
                Request::GetNextAssertion => match old(self).out_get_next_assertion() {
                    Ok(x) => Ok(Response::GetNextAssertion(x)), Err(e) => Err(e) },
                Request::Reset => match old(self).out_reset() { Ok(_) => Ok(Response::Reset), Err(e) => Err(e) },
                Request::ClientPin(p) => match old(self).out_client_pin(p) {
                    Ok(x) => Ok(Response::ClientPin(x)), Err(e) => Err(e) },
                Request::CredentialManagement(p) => match old(self).out_credential_management(p) {
                    Ok(x) => Ok(Response::CredentialManagement(x)), Err(e) => Err(e) },
                Request::Selection => match old(self).out_selection() { Ok(_) => Ok(Response::Selection), Err(e) => Err(e) },
                Request::Vendor(op) => match old(self).out_vendor(op) { Ok(_) => Ok(Response::Vendor), Err(e) => Err(e) },
                Request::LargeBlobs(p) => match old(self).out_large_blobs(p) {
                    Ok(x) => Ok(Response::LargeBlobs(x)), Err(e) => Err(e) },
            }),
@*/

//@extract src/ctap2.rs :: ^pub trait Authenticator \{ :: inject=Authenticator :: drop-body=large_blobs :: contracts=get_info,make_credential,get_assertion,get_next_assertion,reset,client_pin,credential_management,selection,vendor,large_blobs,call_ctap2

// ---- the generic entry point behaves identically (same postcondition) ----------------------
//@extract src/lib.rs :: ^pub trait Rpc<Error, Request, Response>
/*@contract call
        ensures
            // Rpc::call == call_ctap2: exactly one handler, the one of this command, exactly once, parameters unchanged
            final(self).log() == old(self).log().push(call_of(*request)),
            // its result wrapped as the response of the same command, or its error unchanged
            // (the expected response: the handler's result wrapped in the same-named variant)
            r == (match *request {
                Request::GetInfo => Ok::<Response, Error>(Response::GetInfo(old(self).out_get_info())),
                Request::MakeCredential(p) => match old(self).out_make_credential(p) {
                    Ok(x) => Ok(Response::MakeCredential(x)), Err(e) => Err(e) },
                Request::GetAssertion(p) => match old(self).out_get_assertion(p) {
                    Ok(x) => Ok(Response::GetAssertion(x)), Err(e) => Err(e) },
                Request::GetNextAssertion => match old(self).out_get_next_assertion() {
                    Ok(x) => Ok(Response::GetNextAssertion(x)), Err(e) => Err(e) },
                Request::Reset => match old(self).out_reset() { Ok(_) => Ok(Response::Reset), Err(e) => Err(e) },
                Request::ClientPin(p) => match old(self).out_client_pin(p) {
                    Ok(x) => Ok(Response::ClientPin(x)), Err(e) => Err(e) },
                Request::CredentialManagement(p) => match old(self).out_credential_management(p) {
                    Ok(x) => Ok(Response::CredentialManagement(x)), Err(e) => Err(e) },
                Request::Selection => match old(self).out_selection() { Ok(_) => Ok(Response::Selection), Err(e) => Err(e) },
                Request::Vendor(op) => match old(self).out_vendor(op) { Ok(_) => Ok(Response::Vendor), Err(e) => Err(e) },
                Request::LargeBlobs(p) => match old(self).out_large_blobs(p) {
                    Ok(x) => Ok(Response::LargeBlobs(x)), Err(e) => Err(e) },
            }),
@*/
//@extract src/ctap2.rs :: ^impl<'a, A: Authenticator> crate::Rpc<Error, Request<'a>, Response> for A :: contracts=call

} // verus!
fn main() {}
