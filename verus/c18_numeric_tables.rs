// C18 (numeric identifier tables) — and the status codes used by C05.
//
// Pasted verbatim from /repo on every run (module nesting mirrors the crate so that `super::`
// paths inside the items resolve unchanged):
//   src/ctap2.rs                       pub enum Error  (CTAP status codes)
//   src/ctap2/client_pin.rs            pub enum PinV1Subcommand
//   src/ctap2/credential_management.rs pub enum CredentialProtectionPolicy, pub enum Subcommand
//   src/ctap2/make_credential.rs       impl TryFrom<u8> for CredentialProtectionPolicy
//   src/ctap1.rs                       pub enum ControlByte, impl TryFrom<u8> for ControlByte
//   iso7816 (pinned)                   pub enum Status
// The numbers on the right-hand side of every obligation are transcribed from CTAP 2.1 §6.5.5
// (authenticatorClientPIN sub-commands), §6.8 (credential management sub-commands), §12.1
// (credProtect), §8.2 (status codes) and the U2F raw message format §5.1 (control byte).
use vstd::prelude::*;
use vstd::std_specs::convert::*;

verus! {

pub mod iso7816 {
    use vstd::prelude::*;
    verus! {
//@extract dep:iso7816/src/response/status.rs :: ^pub enum Status\b
    }
}

pub mod ctap2 {
    use vstd::prelude::*;
    use vstd::std_specs::convert::*;
    verus! {
//@extract src/ctap2.rs :: ^pub enum Error\b

    pub mod client_pin {
        use vstd::prelude::*;
        verus! {
//@extract src/ctap2/client_pin.rs :: ^pub enum PinV1Subcommand\b :: add-derive=Copy
        }
    }

    pub mod credential_management {
        use vstd::prelude::*;
        verus! {
//@extract src/ctap2/credential_management.rs :: ^pub enum CredentialProtectionPolicy\b
//@extract src/ctap2/credential_management.rs :: ^pub enum Subcommand\b
        }
    }

    pub mod make_credential {
        use vstd::prelude::*;
        use vstd::std_specs::convert::*;
        use crate::ctap2::credential_management::CredentialProtectionPolicy;
        verus! {
//@extract src/ctap2/make_credential.rs :: ^impl TryFrom<u8> for CredentialProtectionPolicy

        /// credProtect policy numbers (CTAP 2.1 §12.1): 1, 2, 3; every other byte is InvalidParameter.
        pub open spec fn spec_cred_protect(v: u8) -> Result<CredentialProtectionPolicy, super::Error> {
            if v == 1 { Ok(CredentialProtectionPolicy::Optional) }
            else if v == 2 { Ok(CredentialProtectionPolicy::OptionalWithCredentialIdList) }
            else if v == 3 { Ok(CredentialProtectionPolicy::Required) }
            else { Err(super::Error::InvalidParameter) }
        }

        impl TryFromSpecImpl<u8> for CredentialProtectionPolicy {
            open spec fn obeys_try_from_spec() -> bool { true }
            open spec fn try_from_spec(v: u8) -> Result<Self, super::Error> { spec_cred_protect(v) }
        }

        pub proof fn ob_C18_cred_protect_roundtrip(v: u8)
            ensures
                spec_cred_protect(v) is Ok <==> (1 <= v <= 3),
                spec_cred_protect(v) is Ok ==> spec_cred_protect(v)->Ok_0 as u8 == v,
        {
        }
        }
    }
    }
}

pub mod ctap1 {
    use vstd::prelude::*;
    use vstd::std_specs::convert::*;
    pub use crate::iso7816::Status as Error;
    pub type Result<T> = core::result::Result<T, Error>;
    verus! {
//@extract src/ctap1.rs :: ^pub enum ControlByte\b
//@extract src/ctap1.rs :: ^impl TryFrom<u8> for ControlByte

    /// U2F control byte (raw message format §5.1): 0x07 check-only, 0x03 enforce-user-presence-and-sign,
    /// 0x08 dont-enforce-user-presence-and-sign; anything else is rejected (IncorrectDataParameter).
    pub open spec fn spec_control_byte(b: u8) -> Result<ControlByte> {
        if b == 0x07 { Ok(ControlByte::CheckOnly) }
        else if b == 0x03 { Ok(ControlByte::EnforceUserPresenceAndSign) }
        else if b == 0x08 { Ok(ControlByte::DontEnforceUserPresenceAndSign) }
        else { Err(Error::IncorrectDataParameter) }
    }

    impl TryFromSpecImpl<u8> for ControlByte {
        open spec fn obeys_try_from_spec() -> bool { true }
        open spec fn try_from_spec(b: u8) -> Result<Self> { spec_control_byte(b) }
    }

    pub proof fn ob_C18_control_byte_roundtrip(b: u8)
        ensures
            spec_control_byte(b) is Ok <==> (b == 3 || b == 7 || b == 8),
            spec_control_byte(b) is Ok ==> spec_control_byte(b)->Ok_0 as u8 == b,
            ControlByte::CheckOnly as u8 == 0x07,
            ControlByte::EnforceUserPresenceAndSign as u8 == 0x03,
            ControlByte::DontEnforceUserPresenceAndSign as u8 == 0x08,
    {
    }
    }
}

use crate::ctap2::Error;
use crate::ctap2::client_pin::PinV1Subcommand;
use crate::ctap2::credential_management::{CredentialProtectionPolicy, Subcommand};

/// PIN sub-commands 1-7 and 9 (CTAP 2.1 §6.5.5).
pub proof fn ob_C18_pin_subcommand_numbers()
    ensures
        PinV1Subcommand::GetRetries as u8 == 0x01,
        PinV1Subcommand::GetKeyAgreement as u8 == 0x02,
        PinV1Subcommand::SetPin as u8 == 0x03,
        PinV1Subcommand::ChangePin as u8 == 0x04,
        PinV1Subcommand::GetPinToken as u8 == 0x05,
        PinV1Subcommand::GetPinUvAuthTokenUsingUvWithPermissions as u8 == 0x06,
        PinV1Subcommand::GetUVRetries as u8 == 0x07,
        PinV1Subcommand::GetPinUvAuthTokenUsingPinWithPermissions as u8 == 0x09,
{
}

/// distinct identifiers never share a number; nothing maps to 8 or beyond 9
pub proof fn ob_C18_pin_subcommand_injective(a: PinV1Subcommand, b: PinV1Subcommand)
    ensures
        a as u8 == b as u8 ==> a == b,
        1 <= a as u8 <= 9 && a as u8 != 8,
{
}

/// credential-management sub-commands 1-7 (CTAP 2.1 §6.8).
pub proof fn ob_C18_cm_subcommand_numbers()
    ensures
        Subcommand::GetCredsMetadata as u8 == 0x01,
        Subcommand::EnumerateRpsBegin as u8 == 0x02,
        Subcommand::EnumerateRpsGetNextRp as u8 == 0x03,
        Subcommand::EnumerateCredentialsBegin as u8 == 0x04,
        Subcommand::EnumerateCredentialsGetNextCredential as u8 == 0x05,
        Subcommand::DeleteCredential as u8 == 0x06,
        Subcommand::UpdateUserInformation as u8 == 0x07,
{
}

pub proof fn ob_C18_cm_subcommand_injective(a: Subcommand, b: Subcommand)
    ensures
        a as u8 == b as u8 ==> a == b,
        1 <= a as u8 <= 7,
{
}

/// credential protection policies 1-3.
pub proof fn ob_C18_cred_protect_numbers(a: CredentialProtectionPolicy, b: CredentialProtectionPolicy)
    ensures
        CredentialProtectionPolicy::Optional as u8 == 1,
        CredentialProtectionPolicy::OptionalWithCredentialIdList as u8 == 2,
        CredentialProtectionPolicy::Required as u8 == 3,
        a as u8 == b as u8 ==> a == b,
        1 <= a as u8 <= 3,
{
}

/// CTAP status codes (CTAP 2.1 §8.2).
pub proof fn ob_C18_status_codes()
    ensures
        Error::Success as u8 == 0x00, Error::InvalidCommand as u8 == 0x01, Error::InvalidParameter as u8 == 0x02,
        Error::InvalidLength as u8 == 0x03, Error::InvalidSeq as u8 == 0x04, Error::Timeout as u8 == 0x05,
        Error::ChannelBusy as u8 == 0x06, Error::LockRequired as u8 == 0x0A, Error::InvalidChannel as u8 == 0x0B,
        Error::CborUnexpectedType as u8 == 0x11, Error::InvalidCbor as u8 == 0x12, Error::MissingParameter as u8 == 0x14,
        Error::LimitExceeded as u8 == 0x15, Error::UnsupportedExtension as u8 == 0x16,
        Error::FingerprintDatabaseFull as u8 == 0x17, Error::LargeBlobStorageFull as u8 == 0x18,
        Error::CredentialExcluded as u8 == 0x19, Error::Processing as u8 == 0x21, Error::InvalidCredential as u8 == 0x22,
        Error::UserActionPending as u8 == 0x23, Error::OperationPending as u8 == 0x24, Error::NoOperations as u8 == 0x25,
        Error::UnsupportedAlgorithm as u8 == 0x26, Error::OperationDenied as u8 == 0x27, Error::KeyStoreFull as u8 == 0x28,
        Error::NotBusy as u8 == 0x29, Error::NoOperationPending as u8 == 0x2A, Error::UnsupportedOption as u8 == 0x2B,
        Error::InvalidOption as u8 == 0x2C, Error::KeepaliveCancel as u8 == 0x2D, Error::NoCredentials as u8 == 0x2E,
        Error::UserActionTimeout as u8 == 0x2F, Error::NotAllowed as u8 == 0x30, Error::PinInvalid as u8 == 0x31,
        Error::PinBlocked as u8 == 0x32, Error::PinAuthInvalid as u8 == 0x33, Error::PinAuthBlocked as u8 == 0x34,
        Error::PinNotSet as u8 == 0x35, Error::PinRequired as u8 == 0x36, Error::PinPolicyViolation as u8 == 0x37,
        Error::PinTokenExpired as u8 == 0x38, Error::RequestTooLarge as u8 == 0x39, Error::ActionTimeout as u8 == 0x3A,
        Error::UpRequired as u8 == 0x3B, Error::UvBlocked as u8 == 0x3C, Error::IntegrityFailure as u8 == 0x3D,
        Error::InvalidSubcommand as u8 == 0x3E, Error::UvInvalid as u8 == 0x3F, Error::UnauthorizedPermission as u8 == 0x40,
        Error::Other as u8 == 0x7F, Error::SpecLast as u8 == 0xDF, Error::ExtensionFirst as u8 == 0xE0,
        Error::ExtensionLast as u8 == 0xEF, Error::VendorFirst as u8 == 0xF0, Error::VendorLast as u8 == 0xFF,
{
}

/// distinct status identifiers never share a number
pub proof fn ob_C18_status_codes_injective(a: Error, b: Error)
    ensures a as u8 == b as u8 ==> a == b,
{
}

} // verus!

fn main() {}
