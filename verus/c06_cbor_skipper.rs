// C06 — the item skipper that unknown map members are routed to: cbor-smol `Deserializer::ignore`.
//
// This is DEPENDENCY code (cbor-smol, the version pinned in /repo/Cargo.lock, read from the
// offline cargo registry on every run), verified here so that assumption A9 ("ignore() consumes
// exactly one well-formed definite-length item of any shape") is a proof, not an assumption:
//   pub struct Deserializer<'de>, and the methods try_take_n, peek_major, expect_major,
//   ignore_int, ignore_bytes, ignore_array, ignore_float, ignore              — verbatim;
//   raw_deserialize_u32 (the length-head reader)                               — external_body with the
//   contract `len_head` below (its body uses slice->array conversions Verus has no specification for);
//   that contract is validated on the real code through the public decoder by the Kani harness dep_k_length_heads.
// Annotation added (nothing else): contracts on each method, `decreases` clauses, and the loop invariant of
// the one loop (`for _ in 0..real_length` in ignore_array), inserted mechanically by the extraction
// (`loop-invariant=` directive; the loop variable `_` is named `i__`).
//
// Specification side: `rest(s)` = the input that remains after the first data item of `s` (RFC 8949 §3,
// definite lengths only, with cbor-smol's rule that array/map/string LENGTH heads must be minimal and < 2^32),
// or None when `s` does not start with such an item.
use vstd::prelude::*;

verus! {

global size_of usize == 8;

pub mod error {
    use vstd::prelude::*;
    verus! {
//@extract dep:cbor-smol/src/error.rs :: ^pub enum Error\b
    pub type Result<T> = core::result::Result<T, Error>;
    }
}
use crate::error::{Error, Result};

//@extract dep:cbor-smol/src/consts.rs :: ^pub const MAJOR_OFFSET
//@extract dep:cbor-smol/src/consts.rs :: ^pub const MAJOR_POSINT
//@extract dep:cbor-smol/src/consts.rs :: ^pub const MAJOR_NEGINT
//@extract dep:cbor-smol/src/consts.rs :: ^pub const MAJOR_BYTES
//@extract dep:cbor-smol/src/consts.rs :: ^pub const MAJOR_STR
//@extract dep:cbor-smol/src/consts.rs :: ^pub const MAJOR_ARRAY
//@extract dep:cbor-smol/src/consts.rs :: ^pub const MAJOR_MAP
//@extract dep:cbor-smol/src/consts.rs :: ^pub const MAJOR_FLOAT

// bit-vector facts the proofs need (each proved by Verus' bit_vector mode)
pub mod bv {
    use vstd::prelude::*;
    verus! {
    pub broadcast proof fn lemma_major_range(b: u8)
        ensures #[trigger] (b >> 5u8) <= 7u8,
    {
        assert((b >> 5u8) <= 7u8) by (bit_vector);
    }
    pub broadcast proof fn lemma_one_shl_5(x: u8)
        requires x == 1u8,
        ensures #[trigger] (x << 5u8) == 32u8,
    {
        assert(1u8 << 5u8 == 32u8) by (bit_vector);
    }
    }
}
broadcast use {crate::bv::lemma_major_range, crate::bv::lemma_one_shl_5};

// ------------------------------------------------------------------------------- specification
/// number of bytes of an integer / tag / simple-or-float head with additional information `a` (RFC 8949 §3)
pub open spec fn head_len(a: u8) -> Option<nat> {
    if a <= 23 { Some(1nat) }
    else if a == 24 { Some(2nat) }
    else if a == 25 { Some(3nat) }
    else if a == 26 { Some(5nat) }
    else if a == 27 { Some(9nat) }
    else { None }
}

/// a LENGTH head of the given major type as cbor-smol reads it: (value, header bytes); minimal encodings only, < 2^32
pub open spec fn len_head(s: Seq<u8>, major: u8) -> Option<(nat, nat)> {
    if s.len() < 1 || (s[0] >> 5) != major { None }
    else {
        let a = s[0] & 0x1f;
        if a <= 23 { Some((a as nat, 1nat)) }
        else if a == 24 {
            if s.len() < 2 || s[1] <= 23 { None } else { Some((s[1] as nat, 2nat)) }
        } else if a == 25 {
            if s.len() < 3 { None } else {
                let v = (s[1] as nat) * 256 + (s[2] as nat);
                if v <= 255 { None } else { Some((v, 3nat)) }
            }
        } else if a == 26 {
            if s.len() < 5 { None } else {
                let v = (s[1] as nat) * 16777216 + (s[2] as nat) * 65536 + (s[3] as nat) * 256 + (s[4] as nat);
                if v <= 65535 { None } else { Some((v, 5nat)) }
            }
        } else { None }
    }
}

/// the input remaining after the first data item of `s`
pub open spec fn rest(s: Seq<u8>) -> Option<Seq<u8>>
    decreases s.len(), 0nat,
{
    if s.len() == 0 { None } else {
        let major = s[0] >> 5;
        let a = s[0] & 0x1f;
        if major == 0 || major == 1 || major == 7 {
            // integers; simple values and floats: the head is the whole item
            match head_len(a) {
                Some(h) => if s.len() >= h { Some(s.subrange(h as int, s.len() as int)) } else { None },
                None => None,
            }
        } else if major == 2 || major == 3 {
            // byte / text string: length head, then that many bytes
            match len_head(s, major) {
                Some((v, h)) => if s.len() >= h + v { Some(s.subrange((h + v) as int, s.len() as int)) } else { None },
                None => None,
            }
        } else if major == 4 || major == 5 {
            // array of v items / map of v pairs
            match len_head(s, major) {
                Some((v, h)) => rest_n(s.subrange(h as int, s.len() as int), if major == 4 { v } else { 2 * v }),
                None => None,
            }
        } else {
            // major 6: a tag head followed by one item
            match head_len(a) {
                Some(h) => if s.len() >= h { rest(s.subrange(h as int, s.len() as int)) } else { None },
                None => None,
            }
        }
    }
}

/// the input remaining after the first `n` data items of `s`
pub open spec fn rest_n(s: Seq<u8>, n: nat) -> Option<Seq<u8>>
    decreases s.len(), 1 + n,
{
    if n == 0 { Some(s) } else {
        match rest(s) {
            Some(t) => if t.len() < s.len() { rest_n(t, (n - 1) as nat) } else { None },
            None => None,
        }
    }
}

/// skipping an item always consumes at least one byte
pub proof fn lemma_rest_shrinks(s: Seq<u8>)
    ensures rest(s) is Some ==> rest(s)->Some_0.len() < s.len(),
    decreases s.len(), 0nat,
{
    if s.len() > 0 {
        let major = s[0] >> 5;
        let a = s[0] & 0x1f;
        if major == 4 || major == 5 {
            match len_head(s, major) {
                Some((v, h)) => { lemma_rest_n_shrinks(s.subrange(h as int, s.len() as int), if major == 4 { v } else { 2 * v }); }
                None => {}
            }
        } else if !(major == 0 || major == 1 || major == 7 || major == 2 || major == 3) {
            match head_len(a) {
                Some(h) => { if s.len() >= h { lemma_rest_shrinks(s.subrange(h as int, s.len() as int)); } }
                None => {}
            }
        }
    }
}

pub proof fn lemma_rest_n_shrinks(s: Seq<u8>, n: nat)
    ensures rest_n(s, n) is Some ==> rest_n(s, n)->Some_0.len() <= s.len(),
    decreases s.len(), 1 + n,
{
    if n > 0 {
        match rest(s) {
            Some(t) => { if t.len() < s.len() { lemma_rest_n_shrinks(t, (n - 1) as nat); } }
            None => {}
        }
    }
}

// ------------------------------------------------------------------------------- the code
//@extract dep:cbor-smol/src/de.rs :: ^pub struct Deserializer<'de>

/*@contract try_take_n
        ensures
            old(self).input@.len() >= count ==> r is Ok && r->Ok_0@ == old(self).input@.subrange(0, count as int)
                && final(self).input@ == old(self).input@.subrange(count as int, old(self).input@.len() as int),
            old(self).input@.len() < count ==> r is Err && final(self).input@ == old(self).input@,
@*/
/*@contract peek_major
        ensures
            final(self).input@ == old(self).input@,
            old(self).input@.len() > 0 ==> r == Ok::<u8, Error>(old(self).input@[0] >> 5),
            old(self).input@.len() == 0 ==> r is Err,
@*/
/*@contract expect_major
        ensures
            (old(self).input@.len() > 0 && (old(self).input@[0] >> 5) == major) ==>
                r == Ok::<u8, Error>(old(self).input@[0] & 0x1f)
                && final(self).input@ == old(self).input@.subrange(1, old(self).input@.len() as int),
            !(old(self).input@.len() > 0 && (old(self).input@[0] >> 5) == major) ==> r is Err,
@*/
/*@contract ignore_int
        ensures
            match (if old(self).input@.len() > 0 && (old(self).input@[0] >> 5) == major { head_len(old(self).input@[0] & 0x1f) } else { None }) {
                Some(h) => if old(self).input@.len() >= h {
                        r is Ok && final(self).input@ == old(self).input@.subrange(h as int, old(self).input@.len() as int)
                    } else { r is Err },
                None => r is Err,
            },
            r is Ok ==> final(self).input@.len() < old(self).input@.len(),
@*/
/*@contract ignore_float
        ensures
            match (if old(self).input@.len() > 0 && (old(self).input@[0] >> 5) == 7 { head_len(old(self).input@[0] & 0x1f) } else { None }) {
                Some(h) => if old(self).input@.len() >= h {
                        r is Ok && final(self).input@ == old(self).input@.subrange(h as int, old(self).input@.len() as int)
                    } else { r is Err },
                None => r is Err,
            },
            r is Ok ==> final(self).input@.len() < old(self).input@.len(),
@*/
/*@contract ignore_bytes
        ensures
            match len_head(old(self).input@, major) {
                Some((v, h)) => if old(self).input@.len() >= h + v {
                        r is Ok && final(self).input@ == old(self).input@.subrange((h + v) as int, old(self).input@.len() as int)
                    } else { r is Err },
                None => r is Err,
            },
            r is Ok ==> final(self).input@.len() < old(self).input@.len(),
@*/
/*@contract ignore_array
        requires mult == 1 || mult == 2,
        ensures
            match len_head(old(self).input@, major) {
                Some((v, h)) => match rest_n(old(self).input@.subrange(h as int, old(self).input@.len() as int), v * (mult as nat)) {
                    Some(t) => r is Ok && final(self).input@ == t,
                    None => r is Err,
                },
                None => r is Err,
            },
            r is Ok ==> final(self).input@.len() < old(self).input@.len(),
        decreases old(self).input@.len(), 0nat,
@*/
/*@contract ignore
        ensures
            // exactly one well-formed definite-length item is consumed — or the call fails
            match rest(old(self).input@) {
                Some(t) => r is Ok && final(self).input@ == t,
                None => r is Err,
            },
            r is Ok ==> final(self).input@.len() < old(self).input@.len(),
        decreases old(self).input@.len(), 1nat,
@*/
/*@loopinv ignore_array
        let ghost start__ = self.input@;
        let ghost total__ = real_length as nat;
@@
            invariant
                rest_n(self.input@, (total__ - i__) as nat) == rest_n(start__, total__),
                self.input@.len() <= start__.len(),
                start__.len() < old(self).input@.len(),
                real_length as nat == total__,
                len_head(old(self).input@, major) is Some,
                start__ == old(self).input@.subrange(len_head(old(self).input@, major)->Some_0.1 as int, old(self).input@.len() as int),
                total__ == len_head(old(self).input@, major)->Some_0.0 * (mult as nat),
@*/

impl<'de> Deserializer<'de> {
    /// cbor-smol `raw_deserialize_u32`: the length-head reader (assumed contract, validated by Kani harness dep_k_length_heads)
    #[verifier::external_body]
    fn raw_deserialize_u32(&mut self, major: u8) -> (r: Result<u32>)
        ensures
            match len_head(old(self).input@, major) {
                Some((v, h)) => r == Ok::<u32, Error>(v as u32) && v <= 0xFFFF_FFFF
                    && final(self).input@ == old(self).input@.subrange(h as int, old(self).input@.len() as int),
                None => r is Err,
            },
    {
        unimplemented!()
    }

//@extract dep:cbor-smol/src/de.rs :: ^    fn try_take_n\( :: contracts=try_take_n
//@extract dep:cbor-smol/src/de.rs :: ^    fn peek_major\( :: contracts=peek_major
//@extract dep:cbor-smol/src/de.rs :: ^    fn expect_major\( :: contracts=expect_major
//@extract dep:cbor-smol/src/de.rs :: ^    fn ignore_int\( :: contracts=ignore_int
//@extract dep:cbor-smol/src/de.rs :: ^    fn ignore_float\( :: contracts=ignore_float
//@extract dep:cbor-smol/src/de.rs :: ^    fn ignore_bytes\( :: contracts=ignore_bytes
//@extract dep:cbor-smol/src/de.rs :: ^    fn ignore_array\( :: contracts=ignore_array :: loop-invariant=ignore_array
//@extract dep:cbor-smol/src/de.rs :: ^    fn ignore\( :: contracts=ignore
}

// ------------------------------------------------------------------------------- C06 at the item level
/// An unknown member `key value` in front of the remaining members `tail` is skipped exactly:
/// whatever well-formed item `value` is, the skipper leaves `tail` (nothing swallowed, nothing left over).
pub proof fn ob_C06_unknown_value_is_skipped_exactly(value: Seq<u8>, tail: Seq<u8>)
    requires rest(value) == Some(Seq::<u8>::empty()),
    ensures rest(value + tail) == Some(tail),
    decreases value.len(), 0nat,
{
    lemma_rest_append(value, tail);
    assert(Seq::<u8>::empty() + tail =~= tail);
}

/// `rest` only looks at the item itself: appending bytes after a complete item appends them to the remainder
pub proof fn lemma_rest_append(s: Seq<u8>, tail: Seq<u8>)
    ensures rest(s) is Some ==> rest(s + tail) == Some(rest(s)->Some_0 + tail),
    decreases s.len(), 0nat,
{
    if s.len() > 0 && rest(s) is Some {
        let st = s + tail;
        let major = s[0] >> 5;
        let a = s[0] & 0x1f;
        assert(st[0] == s[0]);
        if major == 0 || major == 1 || major == 7 {
            let h = head_len(a)->Some_0;
            assert(st.subrange(h as int, st.len() as int) =~= s.subrange(h as int, s.len() as int) + tail);
        } else if major == 2 || major == 3 {
            lemma_len_head_append(s, tail, major);
            let (v, h) = len_head(s, major)->Some_0;
            assert(st.subrange((h + v) as int, st.len() as int) =~= s.subrange((h + v) as int, s.len() as int) + tail);
        } else if major == 4 || major == 5 {
            lemma_len_head_append(s, tail, major);
            let (v, h) = len_head(s, major)->Some_0;
            let n = if major == 4 { v } else { 2 * v };
            assert(st.subrange(h as int, st.len() as int) =~= s.subrange(h as int, s.len() as int) + tail);
            lemma_rest_n_append(s.subrange(h as int, s.len() as int), tail, n);
        } else {
            let h = head_len(a)->Some_0;
            assert(st.subrange(h as int, st.len() as int) =~= s.subrange(h as int, s.len() as int) + tail);
            lemma_rest_append(s.subrange(h as int, s.len() as int), tail);
        }
    }
}

pub proof fn lemma_len_head_append(s: Seq<u8>, tail: Seq<u8>, major: u8)
    ensures len_head(s, major) is Some ==> len_head(s + tail, major) == len_head(s, major),
{
    if len_head(s, major) is Some {
        let st = s + tail;
        assert(st[0] == s[0]);
        if s.len() >= 2 { assert(st[1] == s[1]); }
        if s.len() >= 3 { assert(st[2] == s[2]); }
        if s.len() >= 5 { assert(st[3] == s[3]); assert(st[4] == s[4]); }
    }
}

pub proof fn lemma_rest_n_append(s: Seq<u8>, tail: Seq<u8>, n: nat)
    ensures rest_n(s, n) is Some ==> rest_n(s + tail, n) == Some(rest_n(s, n)->Some_0 + tail),
    decreases s.len(), 1 + n,
{
    if n > 0 && rest_n(s, n) is Some {
        let t = rest(s)->Some_0;
        lemma_rest_append(s, tail);
        lemma_rest_n_append(t, tail, (n - 1) as nat);
    }
}

} // verus!
fn main() {}
