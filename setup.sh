#!/bin/bash
# Offline setup after a fresh restore: scratch dirs, playback placeholders, declaration extractor.
set -e
cd "$(dirname "$0")"
mkdir -p .cache/playback .cache/verus evidence replays
for f in root webauthn arbitrary; do
  [ -f .cache/playback/$f.rs ] || echo '// generated: concrete playback tests (empty unless a replay is in progress)' > .cache/playback/$f.rs
done
if [ -d tools/declx ]; then
  (cd tools/declx && CARGO_NET_OFFLINE=true cargo build --release --offline -q)
fi
echo setup ok
