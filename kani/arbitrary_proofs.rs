//! Proofs for the private helpers of src/arbitrary.rs (needs `--features arbitrary`).
//!
//! C19: generation from ANY byte string (bounded length) never panics, text fields are
//! well-formed UTF-8 (the `from_utf8_unchecked` site), bounded fields are within capacity (the
//! `try_into().unwrap()` / `from_slice(..).unwrap()` / `push(..).unwrap()` sites), the
//! pointer cast in `arbitrary_byte_array` yields N readable bytes.
#![allow(dead_code, unused_imports)]
use super::*;

const IN: usize = 16;

/// Well-formed UTF-8 (Unicode 15 table 3-7), written out: the specification side of "every text field
/// is well-formed UTF-8" (cheaper for CBMC than a second run of core::str::from_utf8).
fn spec_utf8_valid(b: &[u8]) -> bool {
    let mut i = 0;
    while i < b.len() {
        let c = b[i];
        let n = if c < 0x80 {
            1
        } else if c >= 0xC2 && c <= 0xDF {
            2
        } else if c >= 0xE0 && c <= 0xEF {
            3
        } else if c >= 0xF0 && c <= 0xF4 {
            4
        } else {
            return false;
        };
        if i + n > b.len() {
            return false;
        }
        if n >= 2 {
            let (lo, hi) = match c {
                0xE0 => (0xA0, 0xBF),
                0xED => (0x80, 0x9F),
                0xF0 => (0x90, 0xBF),
                0xF4 => (0x80, 0x8F),
                _ => (0x80, 0xBF),
            };
            if b[i + 1] < lo || b[i + 1] > hi {
                return false;
            }
        }
        let mut k = 2;
        while k < n {
            if b[i + k] & 0xC0 != 0x80 {
                return false;
            }
            k += 1;
        }
        i += n;
    }
    true
}

fn any_input(buf: &[u8; IN]) -> &[u8] {
    let n: usize = kani::any();
    kani::assume(n <= IN);
    &buf[..n]
}

/// input of concrete length LEN (8 bytes feed the length, the rest is text), fully symbolic content
fn str_case<const N: usize, const LEN: usize>() {
    let buf: [u8; LEN] = kani::any();
    let mut u = Unstructured::new(&buf);
    match arbitrary_str::<N>(&mut u) {
        Ok(s) => {
            assert!(s.len() <= N, "C19: text field beyond its capacity");
            assert!(
                spec_utf8_valid(s.as_bytes()),
                "C19: text field is not well-formed UTF-8"
            );
            kani::cover!(s.len() == N);
            kani::cover!(s.len() > 0 && s.as_bytes()[0] >= 0x80);
        }
        Err(e) => assert!(
            matches!(e, Error::NotEnoughData),
            "C19: unexpected generator error"
        ),
    }
}

#[kani::proof]
#[kani::unwind(18)]
pub fn c19_k_arbitrary_str_4() {
    // 8 length bytes + 4 text bytes: every 4-byte text incl. ill-formed and cut multi-byte sequences, every declared length
    str_case::<4, 12>();
}

#[kani::proof]
#[kani::unwind(18)]
pub fn c19_k_arbitrary_str_4_short_input() {
    // fewer text bytes than the declared length may ask for, and no text at all
    str_case::<4, 10>();
    str_case::<4, 8>();
    str_case::<4, 3>();
}

#[kani::proof]
#[kani::unwind(18)]
pub fn c19_k_arbitrary_str_64() {
    str_case::<64, 14>();
}

fn bytes_case<const N: usize>() {
    let buf: [u8; IN] = kani::any();
    let mut u = Unstructured::new(any_input(&buf));
    match arbitrary_bytes::<N>(&mut u) {
        Ok(b) => assert!(b.len() <= N, "C19: byte field beyond its capacity"),
        Err(e) => assert!(
            matches!(e, Error::NotEnoughData),
            "C19: unexpected generator error"
        ),
    }
}

#[kani::proof]
#[kani::unwind(18)]
pub fn c19_k_arbitrary_bytes() {
    bytes_case::<4>();
    bytes_case::<32>();
}

#[kani::proof]
#[kani::unwind(18)]
pub fn c19_k_arbitrary_byte_array() {
    let buf: [u8; IN] = kani::any();
    let input = any_input(&buf);
    let mut u = Unstructured::new(input);
    match arbitrary_byte_array::<8>(&mut u) {
        Ok(a) => {
            // the reference produced by the pointer cast points at 8 readable bytes of the input
            let k: usize = kani::any();
            kani::assume(k < 8);
            assert!(
                a[k] == input[k],
                "C19: byte array does not alias the consumed input"
            );
        }
        Err(e) => {
            assert!(matches!(e, Error::NotEnoughData));
            assert!(input.len() < 8, "C19: enough data but generation failed");
        }
    }
}

#[kani::proof]
#[kani::unwind(18)]
pub fn c19_k_arbitrary_vec() {
    let buf: [u8; IN] = kani::any();
    let mut u = Unstructured::new(any_input(&buf));
    // at most N pushes: the `unwrap` on push never fires
    let r: Result<Vec<u8, 3>> = arbitrary_vec::<u8, 3>(&mut u);
    if let Ok(v) = r {
        assert!(v.len() <= 3, "C19: list beyond its capacity");
    }
}

/// CTAP1 request generator: never panics; a generated request is internally valid.
#[kani::proof]
#[kani::unwind(70)]
pub fn c19_k_ctap1_request() {
    let buf: [u8; 68] = kani::any();
    let n: usize = kani::any();
    kani::assume(n <= 68);
    let mut u = Unstructured::new(&buf[..n]);
    match <ctap1::Request<'_> as Arbitrary>::arbitrary(&mut u) {
        Ok(ctap1::Request::Register(r)) => {
            assert!(r.challenge.len() == 32 && r.app_id.len() == 32);
        }
        Ok(ctap1::Request::Authenticate(a)) => {
            assert!(a.challenge.len() == 32 && a.app_id.len() == 32);
            let c = a.control_byte as u8;
            assert!(
                c == 3 || c == 7 || c == 8,
                "C19: invalid control byte generated"
            );
        }
        Ok(ctap1::Request::Version) => {}
        Err(_) => {}
    }
}

#[path = "/verif/.cache/playback/arbitrary.rs"]
mod playback;
