//! Proofs for the private helpers of src/arbitrary.rs (needs --features arbitrary).
#![allow(dead_code, unused_imports)]

#[path = "/verif/.cache/playback/arbitrary.rs"]
mod playback;
