//! Proofs for the private helpers of src/arbitrary.rs (needs `--features arbitrary`).
//!
//! C19: generation from ANY byte string (bounded length) never panics, text fields are
//! well-formed UTF-8 (the `from_utf8_unchecked` site), bounded fields are within capacity (the
//! `try_into().unwrap()` / `from_slice(..).unwrap()` / `push(..).unwrap()` sites), the
//! pointer cast in `arbitrary_byte_array` yields N readable bytes.
#![allow(dead_code, unused_imports)]
use super::*;

const IN: usize = 16;

/// Well-formed UTF-8 (Unicode 15 table 3-7), written out: the specification side of "every text field
/// is well-formed UTF-8" (cheaper for CBMC than a second run of core::str::from_utf8).
fn spec_utf8_valid(b: &[u8]) -> bool {
    let mut i = 0;
    while i < b.len() {
        let c = b[i];
        let n = if c < 0x80 {
            1
        } else if c >= 0xC2 && c <= 0xDF {
            2
        } else if c >= 0xE0 && c <= 0xEF {
            3
        } else if c >= 0xF0 && c <= 0xF4 {
            4
        } else {
            return false;
        };
        if i + n > b.len() {
            return false;
        }
        if n >= 2 {
            let (lo, hi) = match c {
                0xE0 => (0xA0, 0xBF),
                0xED => (0x80, 0x9F),
                0xF0 => (0x90, 0xBF),
                0xF4 => (0x80, 0x8F),
                _ => (0x80, 0xBF),
            };
            if b[i + 1] < lo || b[i + 1] > hi {
                return false;
            }
        }
        let mut k = 2;
        while k < n {
            if b[i + k] & 0xC0 != 0x80 {
                return false;
            }
            k += 1;
        }
        i += n;
    }
    true
}

fn any_input(buf: &[u8; IN]) -> &[u8] {
    let n: usize = kani::any();
    kani::assume(n <= IN);
    &buf[..n]
}

/// `arbitrary_str::<N>` on an input whose first 8 bytes (the declared length, little endian) are fixed to `declared`
/// and whose remaining TEXT bytes are fully symbolic.  (A symbolic declared length makes the slice passed to
/// core::str::from_utf8 symbolic in length, which CBMC does not finish in 25 minutes.)
fn str_case<const N: usize, const TEXT: usize>(declared: u64) {
    let text: [u8; TEXT] = kani::any();
    let mut buf = [0u8; 24];
    let d = declared.to_le_bytes();
    let mut i = 0;
    while i < 8 {
        buf[i] = d[i];
        i += 1;
    }
    let mut j = 0;
    while j < TEXT {
        buf[8 + j] = text[j];
        j += 1;
    }
    let mut u = Unstructured::new(&buf[..8 + TEXT]);
    let r = arbitrary_str::<N>(&mut u);
    // reachability of the interesting outcomes where this instance admits them (a cover that is dead for an instance is
    // reported unsatisfiable, hence the disjunctions)
    let (ok, len, first) = match &r {
        Ok(s) => (true, s.len(), if s.len() > 0 { s.as_bytes()[0] } else { 0 }),
        Err(_) => (false, 0, 0),
    };
    let full_possible = declared >= N as u64 && TEXT >= N;
    let text_possible = TEXT >= 2 && (2 <= declared && declared as usize <= TEXT || declared >= 1000);
    kani::cover!(!full_possible || (ok && len == N));
    kani::cover!(!text_possible || (ok && len > 0 && first >= 0x80));
    match r {
        Ok(s) => {
            assert!(s.len() <= N, "C19: text field beyond its capacity");
            assert!(spec_utf8_valid(s.as_bytes()), "C19: text field is not well-formed UTF-8");
        }
        Err(e) => assert!(matches!(e, Error::NotEnoughData), "C19: unexpected generator error"),
    }
}

/// declared length far beyond the capacity, 6 bytes of text available: every arrangement of multi-byte
/// characters around the cut at N = 4
#[kani::proof]
#[kani::unwind(26)]
pub fn c19_k_arbitrary_str_4() {
    str_case::<4, 6>(1000);
}

/// the smallest capacity at which a multi-byte character can straddle the cut (N = 2, 4 bytes of text available): cheap enough to finish
/// even when the body of arbitrary_str grows (seed C19-5 re-validates a longer prefix and timed out the N = 4 harness)
#[kani::proof]
#[kani::unwind(26)]
pub fn c19_k_arbitrary_str_2() {
    str_case::<2, 4>(1000);
}

/// concrete shapes (cheap, finish whatever the body looks like): a 2-, 3- and 4-byte character straddling the cut at the capacity, with the
/// whole character available in the input - the generator must stop before it, never run past the capacity (seed C19-5)
fn str_concrete<const N: usize>(text: &[u8]) {
    let mut buf = [0u8; 24];
    let d = 1000u64.to_le_bytes();
    let mut i = 0;
    while i < 8 {
        buf[i] = d[i];
        i += 1;
    }
    let mut j = 0;
    while j < text.len() {
        buf[8 + j] = text[j];
        j += 1;
    }
    let mut u = Unstructured::new(&buf[..8 + text.len()]);
    match arbitrary_str::<N>(&mut u) {
        Ok(s) => {
            assert!(s.len() <= N, "C19: text field beyond its capacity");
            assert!(spec_utf8_valid(s.as_bytes()), "C19: text field is not well-formed UTF-8");
        }
        Err(e) => assert!(matches!(e, Error::NotEnoughData), "C19: unexpected generator error"),
    }
}
#[kani::proof]
#[kani::unwind(26)]
pub fn c19_k_arbitrary_str_straddling_char() {
    str_concrete::<2>(&[0x61, 0xC3, 0xA9, 0x61]);
    str_concrete::<4>(&[0x61, 0x61, 0x61, 0xE2, 0x82, 0xAC, 0x61]);
    str_concrete::<4>(&[0x61, 0x61, 0xF0, 0x9F, 0x94, 0x91, 0x61]);
}

/// declared lengths 0..=5 (below, at and above the capacity), and fewer text bytes than declared
#[kani::proof]
#[kani::unwind(26)]
pub fn c19_k_arbitrary_str_4_short_input() {
    str_case::<4, 4>(0);
    str_case::<4, 4>(3);
    str_case::<4, 4>(4);
    str_case::<4, 2>(3);
    str_case::<4, 0>(5);
}

#[kani::proof]
#[kani::unwind(26)]
pub fn c19_k_arbitrary_str_64() {
    str_case::<64, 8>(7);
}

fn bytes_case<const N: usize>() {
    let buf: [u8; IN] = kani::any();
    let mut u = Unstructured::new(any_input(&buf));
    match arbitrary_bytes::<N>(&mut u) {
        Ok(b) => assert!(b.len() <= N, "C19: byte field beyond its capacity"),
        Err(e) => assert!(
            matches!(e, Error::NotEnoughData),
            "C19: unexpected generator error"
        ),
    }
}

#[kani::proof]
#[kani::unwind(18)]
pub fn c19_k_arbitrary_bytes() {
    bytes_case::<4>();
    bytes_case::<32>();
}

#[kani::proof]
#[kani::unwind(18)]
pub fn c19_k_arbitrary_byte_array() {
    let buf: [u8; IN] = kani::any();
    let input = any_input(&buf);
    let mut u = Unstructured::new(input);
    match arbitrary_byte_array::<8>(&mut u) {
        Ok(a) => {
            // the reference produced by the pointer cast points at 8 readable bytes of the input
            let k: usize = kani::any();
            kani::assume(k < 8);
            assert!(
                a[k] == input[k],
                "C19: byte array does not alias the consumed input"
            );
        }
        Err(e) => {
            assert!(matches!(e, Error::NotEnoughData));
            assert!(input.len() < 8, "C19: enough data but generation failed");
        }
    }
}

#[kani::proof]
#[kani::unwind(18)]
pub fn c19_k_arbitrary_vec() {
    let buf: [u8; IN] = kani::any();
    let mut u = Unstructured::new(any_input(&buf));
    // at most N pushes: the `unwrap` on push never fires
    let r: Result<Vec<u8, 3>> = arbitrary_vec::<u8, 3>(&mut u);
    if let Ok(v) = r {
        assert!(v.len() <= 3, "C19: list beyond its capacity");
    }
}

/// CTAP1 request generator: never panics; a generated request is internally valid.
#[kani::proof]
#[kani::unwind(70)]
pub fn c19_k_ctap1_request() {
    let buf: [u8; 68] = kani::any();
    let n: usize = kani::any();
    kani::assume(n <= 68);
    let mut u = Unstructured::new(&buf[..n]);
    match <ctap1::Request<'_> as Arbitrary>::arbitrary(&mut u) {
        Ok(ctap1::Request::Register(r)) => {
            assert!(r.challenge.len() == 32 && r.app_id.len() == 32);
        }
        Ok(ctap1::Request::Authenticate(a)) => {
            assert!(a.challenge.len() == 32 && a.app_id.len() == 32);
            let c = a.control_byte as u8;
            assert!(
                c == 3 || c == 7 || c == 8,
                "C19: invalid control byte generated"
            );
        }
        Ok(ctap1::Request::Version) => {}
        Err(_) => {}
    }
}

#[path = "/verif/.cache/playback/arbitrary.rs"]
mod playback;
