//! C14 — algorithm and attestation-format lists are filtered in order, never rejected.
//!
//! Contract of the two hand-written `visit_seq` loops (`FilteredPublicKeyCredentialParameters`,
//! `AttestationFormatsPreference`): after the whole list, the kept values are the first two known
//! entries in the platform's order; unknown entries never make decoding fail; the `unknown` flag is
//! set iff some other format occurred.  The loops are driven through the real public `Deserialize`
//! impls by a mock serde `Deserializer` / `SeqAccess` that yields a *symbolic* element per
//! position (no CBOR decoder in the loop => the list length can be pushed further than through
//! cbor-smol).  The element decoders (derived `PublicKeyCredentialParameters`, `&str`) are the real ones.
use crate::ctap2::{AttestationFormatsPreference, AttestationStatementFormat};
use crate::webauthn::*;
use serde::de::value::{BorrowedStrDeserializer, Error as VErr, I32Deserializer};
use serde::de::{DeserializeSeed, Deserializer, MapAccess, SeqAccess, Visitor};
use serde::{forward_to_deserialize_any, Deserialize};

// ------------------------------------------------------------ a list of algorithm parameters
#[derive(Clone, Copy)]
struct Param {
    alg: i32,
    public_key_type: bool,
}

struct ParamDe(Param);
struct ParamMap(Param, u8);

impl<'de> Deserializer<'de> for ParamDe {
    type Error = VErr;
    fn deserialize_any<V: Visitor<'de>>(self, v: V) -> Result<V::Value, VErr> {
        v.visit_map(ParamMap(self.0, 0))
    }
    forward_to_deserialize_any! {
        bool i8 i16 i32 i64 i128 u8 u16 u32 u64 u128 f32 f64 char str string bytes byte_buf option unit
        unit_struct newtype_struct seq tuple tuple_struct map struct enum identifier ignored_any
    }
}

impl<'de> MapAccess<'de> for ParamMap {
    type Error = VErr;
    fn next_key_seed<K: DeserializeSeed<'de>>(&mut self, seed: K) -> Result<Option<K::Value>, VErr> {
        match self.1 {
            0 => seed.deserialize(BorrowedStrDeserializer::new("alg")).map(Some),
            1 => seed.deserialize(BorrowedStrDeserializer::new("type")).map(Some),
            _ => Ok(None),
        }
    }
    fn next_value_seed<S: DeserializeSeed<'de>>(&mut self, seed: S) -> Result<S::Value, VErr> {
        self.1 += 1;
        if self.1 == 1 {
            seed.deserialize(I32Deserializer::new(self.0.alg))
        } else if self.0.public_key_type {
            seed.deserialize(BorrowedStrDeserializer::new("public-key"))
        } else {
            seed.deserialize(BorrowedStrDeserializer::new("public-kez"))
        }
    }
}

struct ParamList<'a> {
    items: &'a [Param],
}
struct ParamSeq<'a> {
    items: &'a [Param],
    at: usize,
}

impl<'de, 'a> Deserializer<'de> for ParamList<'a> {
    type Error = VErr;
    fn deserialize_any<V: Visitor<'de>>(self, v: V) -> Result<V::Value, VErr> {
        v.visit_seq(ParamSeq { items: self.items, at: 0 })
    }
    forward_to_deserialize_any! {
        bool i8 i16 i32 i64 i128 u8 u16 u32 u64 u128 f32 f64 char str string bytes byte_buf option unit
        unit_struct newtype_struct seq tuple tuple_struct map struct enum identifier ignored_any
    }
}

impl<'de, 'a> SeqAccess<'de> for ParamSeq<'a> {
    type Error = VErr;
    fn next_element_seed<T: DeserializeSeed<'de>>(&mut self, seed: T) -> Result<Option<T::Value>, VErr> {
        if self.at < self.items.len() {
            let p = self.items[self.at];
            self.at += 1;
            seed.deserialize(ParamDe(p)).map(Some)
        } else {
            Ok(None)
        }
    }
}

fn params_case<const N: usize>() {
    let mut items = [Param { alg: 0, public_key_type: true }; N];
    let mut i = 0;
    while i < N {
        items[i] = Param { alg: kani::any(), public_key_type: kani::any() };
        i += 1;
    }
    let n: usize = kani::any();
    kani::assume(n <= N);
    let r = FilteredPublicKeyCredentialParameters::deserialize(ParamList { items: &items[..n] });
    // specification: the first two entries with type "public-key" and alg in {-7, -8}, in order
    let mut want = [0i32; 2];
    let mut w = 0;
    let mut i = 0;
    while i < n {
        let known = items[i].public_key_type && (items[i].alg == -7 || items[i].alg == -8);
        if known && w < 2 {
            want[w] = items[i].alg;
            w += 1;
        }
        i += 1;
    }
    match r {
        Ok(f) => {
            assert!(f.0.len() == w, "C14: wrong number of known parameters kept");
            if w > 0 {
                assert!(f.0[0].alg == want[0], "C14: first preference wrong");
            }
            if w > 1 {
                assert!(f.0[1].alg == want[1], "C14: second preference wrong");
            }
        }
        Err(_) => panic!("C14: a parameter list with unknown entries was rejected"),
    }
    kani::cover!(w == 2 && n == N);
    kani::cover!(w == 0 && n == N);
}

#[kani::proof]
#[kani::unwind(14)]
pub fn c14_k_filtered_params_upto3() {
    params_case::<3>();
}

#[kani::proof]
#[kani::unwind(14)]
pub fn c14_k_filtered_params_upto6() {
    params_case::<6>();
}

// ------------------------------------------------------------ a list of attestation formats
struct FormatList<'a> {
    items: &'a [u8],
    other: &'a str,
}
struct FormatSeq<'a> {
    items: &'a [u8],
    other: &'a str,
    at: usize,
}

impl<'de: 'a, 'a> Deserializer<'de> for FormatList<'de> {
    type Error = VErr;
    fn deserialize_any<V: Visitor<'de>>(self, v: V) -> Result<V::Value, VErr> {
        v.visit_seq(FormatSeq { items: self.items, other: self.other, at: 0 })
    }
    forward_to_deserialize_any! {
        bool i8 i16 i32 i64 i128 u8 u16 u32 u64 u128 f32 f64 char str string bytes byte_buf option unit
        unit_struct newtype_struct seq tuple tuple_struct map struct enum identifier ignored_any
    }
}

impl<'de> SeqAccess<'de> for FormatSeq<'de> {
    type Error = VErr;
    fn next_element_seed<T: DeserializeSeed<'de>>(&mut self, seed: T) -> Result<Option<T::Value>, VErr> {
        if self.at < self.items.len() {
            let k = self.items[self.at];
            self.at += 1;
            let s: &'de str = match k {
                0 => "packed",
                1 => "none",
                2 => "tpm",
                _ => self.other,
            };
            seed.deserialize(BorrowedStrDeserializer::new(s)).map(Some)
        } else {
            Ok(None)
        }
    }
}

fn formats_case<const N: usize>() {
    let mut kinds = [0u8; N];
    let mut i = 0;
    while i < N {
        let k: u8 = kani::any();
        kani::assume(k < 4);
        kinds[i] = k;
        i += 1;
    }
    // "arbitrary text": 4 symbolic ASCII bytes that spell neither known format
    let mut ob: [u8; 4] = kani::any();
    let mut j = 0;
    while j < 4 {
        ob[j] &= 0x7f;
        j += 1;
    }
    kani::assume(!(ob[0] == b'n' && ob[1] == b'o' && ob[2] == b'n' && ob[3] == b'e'));
    let other = unsafe { core::str::from_utf8_unchecked(&ob) };
    let n: usize = kani::any();
    kani::assume(n <= N);
    let r = AttestationFormatsPreference::deserialize(FormatList { items: &kinds[..n], other });
    let mut want = [0u8; 2];
    let mut w = 0;
    let mut unknown = false;
    let mut i = 0;
    while i < n {
        if kinds[i] <= 1 {
            if w < 2 {
                want[w] = kinds[i];
                w += 1;
            }
        } else {
            unknown = true;
        }
        i += 1;
    }
    match r {
        Ok(p) => {
            let kf = p.known_formats();
            assert!(kf.len() == w, "C14: wrong number of known formats kept");
            let fmt = |k: u8| if k == 0 { AttestationStatementFormat::Packed } else { AttestationStatementFormat::None };
            if w > 0 {
                assert!(kf[0] == fmt(want[0]), "C14: first format preference wrong");
            }
            if w > 1 {
                assert!(kf[1] == fmt(want[1]), "C14: second format preference wrong");
            }
            assert!(p.includes_unknown_formats() == unknown, "C14: unknown-format flag wrong");
        }
        Err(_) => panic!("C14: a format list with unknown entries was rejected"),
    }
    kani::cover!(w == 2 && unknown);
    kani::cover!(w == 0 && n == N);
}

#[kani::proof]
#[kani::unwind(14)]
pub fn c14_k_attestation_formats_upto3() {
    formats_case::<3>();
}

#[kani::proof]
#[kani::unwind(14)]
pub fn c14_k_attestation_formats_upto5() {
    formats_case::<5>();
}
