//! C14 — algorithm and attestation-format lists are filtered in order, never rejected.
//!
//! Contract of the two hand-written `visit_seq` loops (`FilteredPublicKeyCredentialParameters`,
//! `AttestationFormatsPreference`): after the whole list, the kept values are the first two known
//! entries in the platform's order; unknown entries never make decoding fail; the `unknown` flag is
//! set iff some other format occurred.  The loops are driven through the real public `Deserialize`
//! impls by a mock serde `Deserializer` / `SeqAccess` that yields a *symbolic* element per
//! position (no CBOR decoder in the loop => the list length can be pushed further than through
//! cbor-smol).  The element decoders (derived `PublicKeyCredentialParameters`, `&str`) are the real ones.
use crate::ctap2::{AttestationFormatsPreference, AttestationStatementFormat};
use crate::webauthn::*;
use serde::de::value::{BorrowedStrDeserializer, Error as VErr, I32Deserializer};
use serde::de::{DeserializeSeed, Deserializer, MapAccess, SeqAccess, Visitor};
use serde::{forward_to_deserialize_any, Deserialize};

// ------------------------------------------------------------ a list of algorithm parameters
#[derive(Clone, Copy)]
struct Param {
    alg: i32,
    /// 0: "public-key", 1: "public-kez" (unknown type of the same length), 2: a 33-byte type string (one beyond the capacity),
    /// 3: an entry that lacks its required member `type` (C05: a nested structure without a required member is never accepted)
    kind: u8,
}

const LONG_TYPE: &str = "aaaaaaaaaaaaaaaaaaaaaaaaaaaaaaaaa";

struct ParamDe(Param);
struct ParamMap(Param, u8);

impl<'de> Deserializer<'de> for ParamDe {
    type Error = VErr;
    fn deserialize_any<V: Visitor<'de>>(self, v: V) -> Result<V::Value, VErr> {
        v.visit_map(ParamMap(self.0, 0))
    }
    forward_to_deserialize_any! {
        bool i8 i16 i32 i64 i128 u8 u16 u32 u64 u128 f32 f64 char str string bytes byte_buf option unit
        unit_struct newtype_struct seq tuple tuple_struct map struct enum identifier ignored_any
    }
}

impl<'de> MapAccess<'de> for ParamMap {
    type Error = VErr;
    fn next_key_seed<K: DeserializeSeed<'de>>(
        &mut self,
        seed: K,
    ) -> Result<Option<K::Value>, VErr> {
        match self.1 {
            0 => seed
                .deserialize(BorrowedStrDeserializer::new("alg"))
                .map(Some),
            1 if self.0.kind != 3 => seed
                .deserialize(BorrowedStrDeserializer::new("type"))
                .map(Some),
            _ => Ok(None),
        }
    }
    fn next_value_seed<S: DeserializeSeed<'de>>(&mut self, seed: S) -> Result<S::Value, VErr> {
        self.1 += 1;
        if self.1 == 1 {
            seed.deserialize(I32Deserializer::new(self.0.alg))
        } else if self.0.kind == 0 {
            seed.deserialize(BorrowedStrDeserializer::new("public-key"))
        } else if self.0.kind == 1 {
            seed.deserialize(BorrowedStrDeserializer::new("public-kez"))
        } else {
            seed.deserialize(BorrowedStrDeserializer::new(LONG_TYPE))
        }
    }
}

struct ParamList<'a> {
    items: &'a [Param],
    consumed: &'a core::cell::Cell<usize>,
}
struct ParamSeq<'a> {
    items: &'a [Param],
    at: usize,
    consumed: &'a core::cell::Cell<usize>,
}

impl<'de, 'a> Deserializer<'de> for ParamList<'a> {
    type Error = VErr;
    fn deserialize_any<V: Visitor<'de>>(self, v: V) -> Result<V::Value, VErr> {
        v.visit_seq(ParamSeq { items: self.items, at: 0, consumed: self.consumed })
    }
    forward_to_deserialize_any! {
        bool i8 i16 i32 i64 i128 u8 u16 u32 u64 u128 f32 f64 char str string bytes byte_buf option unit
        unit_struct newtype_struct seq tuple tuple_struct map struct enum identifier ignored_any
    }
}

impl<'de, 'a> SeqAccess<'de> for ParamSeq<'a> {
    type Error = VErr;
    fn next_element_seed<T: DeserializeSeed<'de>>(
        &mut self,
        seed: T,
    ) -> Result<Option<T::Value>, VErr> {
        if self.at < self.items.len() {
            let p = self.items[self.at];
            self.at += 1;
            self.consumed.set(self.at);
            seed.deserialize(ParamDe(p)).map(Some)
        } else {
            // the end of the list has been observed
            self.consumed.set(self.items.len() + 1);
            Ok(None)
        }
    }
}

/// mode 0: kinds {0, 1};  mode 1: kinds {0, 1, 2, 3};  mode 2: kinds {0, 1, 3} (no 33-byte strings, cheap)
fn params_case<const N: usize>(mode: u8) {
    let allow_long = mode == 1;
    assert!(LONG_TYPE.len() == 33);
    let mut items = [Param { alg: 0, kind: 0 }; N];
    let mut i = 0;
    let mut any_long = false;
    while i < N {
        let kind: u8 = kani::any();
        kani::assume(kind < if mode == 0 { 2 } else { 4 });
        kani::assume(mode != 2 || kind != 2);
        items[i] = Param { alg: kani::any(), kind };
        i += 1;
    }
    let n: usize = kani::any();
    kani::assume(n <= N);
    let consumed = core::cell::Cell::new(0usize);
    let r = FilteredPublicKeyCredentialParameters::deserialize(ParamList { items: &items[..n], consumed: &consumed });
    // specification: the first two entries with type "public-key" and alg in {-7, -8}, in order
    let mut want = [0i32; 2];
    let mut w = 0;
    let mut i = 0;
    while i < n {
        let known = items[i].kind == 0 && (items[i].alg == -7 || items[i].alg == -8);
        if known && w < 2 {
            want[w] = items[i].alg;
            w += 1;
        }
        any_long = any_long || items[i].kind >= 2;
        i += 1;
    }
    match r {
        Ok(f) => {
            // C12: a type string of 33 bytes is beyond the declared capacity and must reject the list
            assert!(!any_long, "C12/C05/C14: an entry with a 33-byte type string, or without its required member `type`, was accepted");
            assert!(f.0.len() == w, "C14: wrong number of known parameters kept");
            // the whole list must be read: elements left in the stream would be taken for the next map key of the request
            assert!(consumed.get() == n + 1, "C14/C01: the parameter list was not read to its end");
            if w > 0 {
                assert!(f.0[0].alg == want[0], "C14: first preference wrong");
            }
            if w > 1 {
                assert!(f.0[1].alg == want[1], "C14: second preference wrong");
            }
        }
        Err(_) => assert!(any_long, "C14: a parameter list with unknown entries was rejected"),
    }
    kani::cover!(N < 2 || (w == 2 && n == N && !any_long));
    kani::cover!(w == 0 && n == N && !any_long);
    kani::cover!(mode == 0 || any_long);
    kani::cover!(mode == 0 || N < 3 || (any_long && n == N && items[0].kind == 0 && items[1].kind == 0 && (items[0].alg == -7) && (items[1].alg == -8) && items[2].kind == 3));
}

#[kani::proof]
#[kani::unwind(14)]
pub fn c14_k_filtered_params_upto3() {
    params_case::<3>(0);
}

/// same loop, entries may also carry a 33-byte type string (C12: one beyond the 32-byte capacity => rejected)
#[kani::proof]
#[kani::unwind(36)]
pub fn c14_k_filtered_params_type_capacity() {
    params_case::<1>(1);
}

/// a malformed entry (required member `type` missing) at ANY position of a list of up to 3 entries rejects the list -
/// in particular behind two known entries, where the value of the result no longer depends on it
#[kani::proof]
#[kani::unwind(14)]
pub fn c14_k_filtered_params_malformed_entry_anywhere() {
    params_case::<3>(2);
}

/// the same statement on one concrete list shape (cheap, and robust when the loop is rewritten): two known entries, then an entry that
/// lacks its required member `type` - the list must be rejected although its value is already determined (seed C05-7 skipped the rest
/// of the list with IgnoredAny)
#[kani::proof]
#[kani::unwind(14)]
pub fn c14_k_filtered_params_malformed_behind_two_known() {
    let items = [Param { alg: -7, kind: 0 }, Param { alg: -8, kind: 0 }, Param { alg: kani::any(), kind: 3 }];
    let consumed = core::cell::Cell::new(0usize);
    let r = FilteredPublicKeyCredentialParameters::deserialize(ParamList { items: &items, consumed: &consumed });
    assert!(r.is_err(), "C05/C14: an entry without its required member `type` behind two known entries was accepted");
    // control: the same list without the malformed entry is accepted with both entries kept
    let consumed2 = core::cell::Cell::new(0usize);
    let r2 = FilteredPublicKeyCredentialParameters::deserialize(ParamList { items: &items[..2], consumed: &consumed2 });
    assert!(matches!(&r2, Ok(f) if f.0.len() == 2), "C14: two known entries were not both kept");
}

#[kani::proof]
#[kani::unwind(14)]
pub fn c14_k_filtered_params_upto6() {
    params_case::<6>(0);
}

// ------------------------------------------------------------ a list of attestation formats
struct FormatList<'a> {
    items: &'a [u8],
    other: &'a str,
    consumed: &'a core::cell::Cell<usize>,
}
struct FormatSeq<'a> {
    items: &'a [u8],
    other: &'a str,
    at: usize,
    consumed: &'a core::cell::Cell<usize>,
}

impl<'de: 'a, 'a> Deserializer<'de> for FormatList<'de> {
    type Error = VErr;
    fn deserialize_any<V: Visitor<'de>>(self, v: V) -> Result<V::Value, VErr> {
        v.visit_seq(FormatSeq { items: self.items, other: self.other, at: 0, consumed: self.consumed })
    }
    forward_to_deserialize_any! {
        bool i8 i16 i32 i64 i128 u8 u16 u32 u64 u128 f32 f64 char str string bytes byte_buf option unit
        unit_struct newtype_struct seq tuple tuple_struct map struct enum identifier ignored_any
    }
}

impl<'de> SeqAccess<'de> for FormatSeq<'de> {
    type Error = VErr;
    fn next_element_seed<T: DeserializeSeed<'de>>(
        &mut self,
        seed: T,
    ) -> Result<Option<T::Value>, VErr> {
        if self.at < self.items.len() {
            let k = self.items[self.at];
            self.at += 1;
            self.consumed.set(self.at);
            let s: &'de str = match k {
                0 => "packed",
                1 => "none",
                2 => "tpm",
                // registered WebAuthn format identifiers of 17 and 11 bytes
                3 => "android-safetynet",
                4 => "android-key",
                _ => self.other,
            };
            seed.deserialize(BorrowedStrDeserializer::new(s)).map(Some)
        } else {
            self.consumed.set(self.items.len() + 1);
            Ok(None)
        }
    }
}

fn formats_case<const N: usize>() {
    let mut kinds = [0u8; N];
    let mut i = 0;
    while i < N {
        let k: u8 = kani::any();
        kani::assume(k < 6);
        kinds[i] = k;
        i += 1;
    }
    // "arbitrary text": 4 symbolic ASCII bytes that spell neither known format
    let mut ob: [u8; 4] = kani::any();
    let mut j = 0;
    while j < 4 {
        ob[j] &= 0x7f;
        j += 1;
    }
    kani::assume(!(ob[0] == b'n' && ob[1] == b'o' && ob[2] == b'n' && ob[3] == b'e'));
    let other = unsafe { core::str::from_utf8_unchecked(&ob) };
    let n: usize = kani::any();
    kani::assume(n <= N);
    let consumed = core::cell::Cell::new(0usize);
    let r = AttestationFormatsPreference::deserialize(FormatList { items: &kinds[..n], other, consumed: &consumed });
    let mut want = [0u8; 2];
    let mut w = 0;
    let mut unknown = false;
    let mut i = 0;
    while i < n {
        if kinds[i] <= 1 {
            if w < 2 {
                want[w] = kinds[i];
                w += 1;
            }
        } else {
            unknown = true;
        }
        i += 1;
    }
    match r {
        Ok(p) => {
            let kf = p.known_formats();
            assert!(kf.len() == w, "C14: wrong number of known formats kept");
            let fmt = |k: u8| {
                if k == 0 {
                    AttestationStatementFormat::Packed
                } else {
                    AttestationStatementFormat::None
                }
            };
            if w > 0 {
                assert!(kf[0] == fmt(want[0]), "C14: first format preference wrong");
            }
            if w > 1 {
                assert!(kf[1] == fmt(want[1]), "C14: second format preference wrong");
            }
            assert!(
                p.includes_unknown_formats() == unknown,
                "C14: unknown-format flag wrong"
            );
            assert!(consumed.get() == n + 1, "C14/C01: the format list was not read to its end");
        }
        Err(_) => panic!("C14: a format list with unknown entries was rejected"),
    }
    kani::cover!(w == 2 && unknown);
    kani::cover!(w == 0 && n == N);
}

#[kani::proof]
#[kani::unwind(14)]
pub fn c14_k_attestation_formats_upto3() {
    formats_case::<3>();
}

#[kani::proof]
#[kani::unwind(14)]
pub fn c14_k_attestation_formats_upto5() {
    formats_case::<5>();
}


// ------------------------------------------------------------ the hand-written Serialize (C02 / C03)
mod counting {
    //! A serde `Serializer` that only counts: the announced length of a sequence and the number of
    //! elements actually emitted.
    use serde::ser::{Impossible, Serialize, SerializeSeq, Serializer};
    use serde::de::value::Error as VErr;

    pub struct Counting;
    pub struct SeqCount {
        announced: Option<usize>,
        emitted: usize,
    }
    macro_rules! unsupported {
        ($($f:ident($t:ty)),*) => { $(fn $f(self, _v: $t) -> Result<Self::Ok, VErr> { Err(serde::ser::Error::custom("")) })* };
    }
    impl Serializer for Counting {
        type Ok = (Option<usize>, usize);
        type Error = VErr;
        type SerializeSeq = SeqCount;
        type SerializeTuple = Impossible<Self::Ok, VErr>;
        type SerializeTupleStruct = Impossible<Self::Ok, VErr>;
        type SerializeTupleVariant = Impossible<Self::Ok, VErr>;
        type SerializeMap = Impossible<Self::Ok, VErr>;
        type SerializeStruct = Impossible<Self::Ok, VErr>;
        type SerializeStructVariant = Impossible<Self::Ok, VErr>;
        unsupported!(serialize_bool(bool), serialize_i8(i8), serialize_i16(i16), serialize_i32(i32), serialize_i64(i64),
            serialize_u8(u8), serialize_u16(u16), serialize_u32(u32), serialize_u64(u64), serialize_f32(f32), serialize_f64(f64),
            serialize_char(char), serialize_str(&str), serialize_bytes(&[u8]));
        fn serialize_none(self) -> Result<Self::Ok, VErr> { Err(serde::ser::Error::custom("")) }
        fn serialize_some<T: ?Sized + Serialize>(self, _v: &T) -> Result<Self::Ok, VErr> { Err(serde::ser::Error::custom("")) }
        fn serialize_unit(self) -> Result<Self::Ok, VErr> { Err(serde::ser::Error::custom("")) }
        fn serialize_unit_struct(self, _n: &'static str) -> Result<Self::Ok, VErr> { Err(serde::ser::Error::custom("")) }
        fn serialize_unit_variant(self, _n: &'static str, _i: u32, _v: &'static str) -> Result<Self::Ok, VErr> { Err(serde::ser::Error::custom("")) }
        fn serialize_newtype_struct<T: ?Sized + Serialize>(self, _n: &'static str, _v: &T) -> Result<Self::Ok, VErr> { Err(serde::ser::Error::custom("")) }
        fn serialize_newtype_variant<T: ?Sized + Serialize>(self, _n: &'static str, _i: u32, _v: &'static str, _x: &T) -> Result<Self::Ok, VErr> { Err(serde::ser::Error::custom("")) }
        fn collect_str<T: ?Sized + core::fmt::Display>(self, _v: &T) -> Result<Self::Ok, VErr> { Err(serde::ser::Error::custom("")) }
        fn serialize_seq(self, len: Option<usize>) -> Result<SeqCount, VErr> { Ok(SeqCount { announced: len, emitted: 0 }) }
        fn serialize_tuple(self, _l: usize) -> Result<Self::SerializeTuple, VErr> { Err(serde::ser::Error::custom("")) }
        fn serialize_tuple_struct(self, _n: &'static str, _l: usize) -> Result<Self::SerializeTupleStruct, VErr> { Err(serde::ser::Error::custom("")) }
        fn serialize_tuple_variant(self, _n: &'static str, _i: u32, _v: &'static str, _l: usize) -> Result<Self::SerializeTupleVariant, VErr> { Err(serde::ser::Error::custom("")) }
        fn serialize_map(self, _l: Option<usize>) -> Result<Self::SerializeMap, VErr> { Err(serde::ser::Error::custom("")) }
        fn serialize_struct(self, _n: &'static str, _l: usize) -> Result<Self::SerializeStruct, VErr> { Err(serde::ser::Error::custom("")) }
        fn serialize_struct_variant(self, _n: &'static str, _i: u32, _v: &'static str, _l: usize) -> Result<Self::SerializeStructVariant, VErr> { Err(serde::ser::Error::custom("")) }
    }
    impl SerializeSeq for SeqCount {
        type Ok = (Option<usize>, usize);
        type Error = VErr;
        fn serialize_element<T: ?Sized + Serialize>(&mut self, _value: &T) -> Result<(), VErr> {
            self.emitted += 1;
            Ok(())
        }
        fn end(self) -> Result<Self::Ok, VErr> { Ok((self.announced, self.emitted)) }
    }
}

/// Contract of the hand-written `FilteredPublicKeyCredentialParameters::serialize`: a definite-length
/// sequence whose announced length is the number of elements emitted, one per stored entry
/// (duplicates included): C02 "each member that is set appears once", C03 "one well-formed item".
#[kani::proof]
#[kani::unwind(14)]
pub fn c03_k_filtered_params_serialize_length() {
    use serde::Serialize;
    let mut v: heapless::Vec<KnownPublicKeyCredentialParameters, COUNT_KNOWN_ALGS> = heapless::Vec::new();
    let n: usize = kani::any();
    kani::assume(n <= 2);
    let mut i = 0;
    while i < n {
        // the `alg` field and the wrapped Vec are public: any i32 can be in here
        let a: i32 = kani::any();
        v.push(KnownPublicKeyCredentialParameters { alg: a }).ok();
        i += 1;
    }
    let f = FilteredPublicKeyCredentialParameters(v);
    match f.serialize(counting::Counting) {
        Ok((announced, emitted)) => {
            assert!(announced.is_some(), "C03: indefinite-length array");
            assert!(announced == Some(emitted), "C03: announced array length differs from the number of elements emitted");
            assert!(emitted == n, "C02: a stored algorithm was not emitted exactly once");
        }
        Err(_) => panic!("C02: serialising the algorithm list failed"),
    }
    kani::cover!(n == 2);
}
