//! C11 — the command-byte table is total, exact and invertible (Kani side: supplies the
//! counterexample for the Verus proof of src/operation.rs, and carries the table through
//! `ctap2::Request::deserialize`).
use crate::ctap2::{Error, Operation, Request, VendorOperation};

/// Specification table (CTAP 2.1 §6 command codes + the property statement): what a byte is.
#[derive(Clone, Copy, PartialEq, Eq)]
pub enum SpecCmd {
    MakeCredential,
    GetAssertion,
    GetInfo,
    ClientPin,
    Reset,
    GetNextAssertion,
    BioEnrollment,
    CredentialManagement,
    Selection,
    LargeBlobs,
    Config,
    PreviewBioEnrollment,
    PreviewCredentialManagement,
    Vendor(u8),
    Unassigned,
}

pub fn spec_cmd(b: u8) -> SpecCmd {
    match b {
        0x01 => SpecCmd::MakeCredential,
        0x02 => SpecCmd::GetAssertion,
        0x04 => SpecCmd::GetInfo,
        0x06 => SpecCmd::ClientPin,
        0x07 => SpecCmd::Reset,
        0x08 => SpecCmd::GetNextAssertion,
        0x09 => SpecCmd::BioEnrollment,
        0x0A => SpecCmd::CredentialManagement,
        0x0B => SpecCmd::Selection,
        0x0C => SpecCmd::LargeBlobs,
        0x0D => SpecCmd::Config,
        0x40 => SpecCmd::PreviewBioEnrollment,
        0x41 => SpecCmd::PreviewCredentialManagement,
        0x42..=0x7F => SpecCmd::Vendor(b),
        _ => SpecCmd::Unassigned,
    }
}

fn matches(op: Operation, s: SpecCmd) -> bool {
    match (op, s) {
        (Operation::MakeCredential, SpecCmd::MakeCredential) => true,
        (Operation::GetAssertion, SpecCmd::GetAssertion) => true,
        (Operation::GetInfo, SpecCmd::GetInfo) => true,
        (Operation::ClientPin, SpecCmd::ClientPin) => true,
        (Operation::Reset, SpecCmd::Reset) => true,
        (Operation::GetNextAssertion, SpecCmd::GetNextAssertion) => true,
        (Operation::BioEnrollment, SpecCmd::BioEnrollment) => true,
        (Operation::CredentialManagement, SpecCmd::CredentialManagement) => true,
        (Operation::Selection, SpecCmd::Selection) => true,
        (Operation::LargeBlobs, SpecCmd::LargeBlobs) => true,
        (Operation::Config, SpecCmd::Config) => true,
        (Operation::PreviewBioEnrollment, SpecCmd::PreviewBioEnrollment) => true,
        (Operation::PreviewCredentialManagement, SpecCmd::PreviewCredentialManagement) => true,
        (Operation::Vendor(v), SpecCmd::Vendor(c)) => u8::from(v) == c,
        _ => false,
    }
}

/// Contract of `Operation::try_from(u8)` / `u8::from(Operation)` over all 256 bytes.
#[kani::proof]
pub fn c11_k_operation_table() {
    let b: u8 = kani::any();
    let spec = spec_cmd(b);
    match Operation::try_from(b) {
        Ok(op) => {
            assert!(
                spec != SpecCmd::Unassigned,
                "C11: unassigned byte recognised"
            );
            assert!(
                matches(op, spec),
                "C11: byte decodes to the wrong operation"
            );
            assert!(
                u8::from(op) == b,
                "C11: operation does not convert back to its byte"
            );
            assert!(op.into_u8() == b, "C11: into_u8 disagrees");
        }
        Err(()) => assert!(spec == SpecCmd::Unassigned, "C11: assigned byte rejected"),
    }
    kani::cover!(matches!(spec, SpecCmd::Vendor(_)));
    kani::cover!(spec == SpecCmd::Unassigned);
}

/// Contract of `VendorOperation::try_from(u8)`: exactly 0x40..=0x7F, value preserved.
#[kani::proof]
pub fn c11_k_vendor_range() {
    let b: u8 = kani::any();
    match VendorOperation::try_from(b) {
        Ok(v) => {
            assert!((0x40..=0x7F).contains(&b), "C11: vendor range too wide");
            assert!(u8::from(v) == b, "C11: vendor code altered");
        }
        Err(()) => assert!(!(0x40..=0x7F).contains(&b), "C11: vendor range too narrow"),
    }
}

/// No two bytes share an operation (injectivity), stated directly on the real functions.
#[kani::proof]
pub fn c11_k_injective() {
    let b1: u8 = kani::any();
    let b2: u8 = kani::any();
    if let (Ok(o1), Ok(o2)) = (Operation::try_from(b1), Operation::try_from(b2)) {
        if o1 == o2 {
            assert!(b1 == b2, "C11: two bytes share an operation");
        }
    }
}
