//! C18 / C15 — string-valued identifier tables are exact, both ways, and reject everything else.
//!
//! Contract of `TryFrom<&str>` / `From<T> for &str` of Version, Extension, Transport,
//! AttestationStatementFormat: `try_from(s)` is `Ok(v)` iff `s` equals v's specification
//! spelling byte for byte; `into(v)` is that spelling.  Symbolic `s` of up to 20 bytes (the
//! longest spelling has 17): covers every case variant, prefix, one-character extension and
//! edit exhaustively; a longer string cannot equal a shorter constant (A11).
use crate::ctap2::client_pin::Permissions;
use crate::ctap2::get_info::{Extension, Transport, Version};
use crate::ctap2::AttestationStatementFormat;

const MAXLEN: usize = 20;

fn any_text(buf: &[u8; MAXLEN]) -> &str {
    let n: usize = kani::any();
    kani::assume(n <= MAXLEN);
    // SAFETY (harness): the functions under contract only compare bytes
    unsafe { core::str::from_utf8_unchecked(&buf[..n]) }
}

fn same(s: &str, spelling: &[u8]) -> bool {
    let b = s.as_bytes();
    if b.len() != spelling.len() {
        return false;
    }
    let mut i = 0;
    let mut eq = true;
    while i < spelling.len() {
        eq = eq && b[i] == spelling[i];
        i += 1;
    }
    eq
}

#[kani::proof]
#[kani::unwind(22)]
pub fn c18_k_version_strings() {
    // specification spellings (CTAP 2.1 §6.4 versions)
    let table: [(Version, &[u8]); 4] = [
        (Version::Fido2_0, b"FIDO_2_0"),
        (Version::Fido2_1, b"FIDO_2_1"),
        (Version::Fido2_1Pre, b"FIDO_2_1_PRE"),
        (Version::U2fV2, b"U2F_V2"),
    ];
    let buf: [u8; MAXLEN] = kani::any();
    let s = any_text(&buf);
    let r = Version::try_from(s);
    let mut i = 0;
    let mut matched = false;
    while i < 4 {
        let (v, sp) = table[i];
        if same(s, sp) {
            matched = true;
            assert!(
                matches!(r, Ok(x) if x == v),
                "C18: version spelling not recognised as its identifier"
            );
        }
        let back: &str = v.into();
        assert!(
            same(back, sp),
            "C18: version encodes to a different spelling"
        );
        i += 1;
    }
    if !matched {
        assert!(
            r.is_err(),
            "C18: a string that is no version spelling was accepted"
        );
    }
    kani::cover!(matched);
}

#[kani::proof]
#[kani::unwind(22)]
pub fn c18_k_extension_strings() {
    let table: [(Extension, &[u8]); 4] = [
        (Extension::CredProtect, b"credProtect"),
        (Extension::HmacSecret, b"hmac-secret"),
        (Extension::LargeBlobKey, b"largeBlobKey"),
        (Extension::ThirdPartyPayment, b"thirdPartyPayment"),
    ];
    let buf: [u8; MAXLEN] = kani::any();
    let s = any_text(&buf);
    let r = Extension::try_from(s);
    let mut i = 0;
    let mut matched = false;
    while i < 4 {
        let (v, sp) = table[i];
        if same(s, sp) {
            matched = true;
            assert!(
                matches!(r, Ok(x) if x == v),
                "C18: extension spelling not recognised as its identifier"
            );
        }
        let back: &str = v.into();
        assert!(
            same(back, sp),
            "C18: extension encodes to a different spelling"
        );
        i += 1;
    }
    if !matched {
        assert!(
            r.is_err(),
            "C18: a string that is no extension spelling was accepted"
        );
    }
    kani::cover!(matched);
}

#[kani::proof]
#[kani::unwind(22)]
pub fn c18_k_transport_and_format_strings() {
    let buf: [u8; MAXLEN] = kani::any();
    let s = any_text(&buf);
    let t = Transport::try_from(s);
    if same(s, b"nfc") {
        assert!(matches!(t, Ok(Transport::Nfc)), "C18: nfc");
    } else if same(s, b"usb") {
        assert!(matches!(t, Ok(Transport::Usb)), "C18: usb");
    } else {
        assert!(
            t.is_err(),
            "C18: a string that is no transport was accepted"
        );
    }
    let n: &str = Transport::Nfc.into();
    let u: &str = Transport::Usb.into();
    assert!(
        same(n, b"nfc") && same(u, b"usb"),
        "C18: transport spellings"
    );

    let f = AttestationStatementFormat::try_from(s);
    if same(s, b"none") {
        assert!(
            matches!(f, Ok(AttestationStatementFormat::None)),
            "C18: none"
        );
    } else if same(s, b"packed") {
        assert!(
            matches!(f, Ok(AttestationStatementFormat::Packed)),
            "C18: packed"
        );
    } else {
        assert!(
            f.is_err(),
            "C18: a string that is no attestation format was accepted"
        );
    }
    let a: &str = AttestationStatementFormat::None.into();
    let b: &str = AttestationStatementFormat::Packed.into();
    assert!(
        same(a, b"none") && same(b, b"packed"),
        "C18: attestation format spellings"
    );
    kani::cover!(t.is_ok());
    kani::cover!(f.is_ok());
}

/// PIN permission bits (CTAP 2.1 §6.5.5.7): mc 0x01, ga 0x02, cm 0x04, be 0x08, lbw 0x10, acfg 0x20.
#[kani::proof]
pub fn c18_k_permission_bits() {
    assert!(Permissions::MAKE_CREDENTIAL.bits() == 0x01, "C18: mc");
    assert!(Permissions::GET_ASSERTION.bits() == 0x02, "C18: ga");
    assert!(Permissions::CREDENTIAL_MANAGEMENT.bits() == 0x04, "C18: cm");
    assert!(Permissions::BIO_ENROLLMENT.bits() == 0x08, "C18: be");
    assert!(Permissions::LARGE_BLOB_WRITE.bits() == 0x10, "C18: lbw");
    assert!(
        Permissions::AUTHENTICATOR_CONFIGURATION.bits() == 0x20,
        "C18: acfg"
    );
    let raw: u8 = kani::any();
    match Permissions::from_bits(raw) {
        Some(p) => assert!(
            raw & 0xC0 == 0 && p.bits() == raw,
            "C18: undefined permission bit accepted"
        ),
        None => assert!(raw & 0xC0 != 0, "C18: defined permission bits rejected"),
    }
}
