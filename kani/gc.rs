//! GC ("generator contract") harnesses: bounded validation, on the real compiled derives and the
//! real cbor-smol decoder, of the assumptions under which Engine D decides C01/C02/C05/C06/C12/C15
//! (A1 serde-indexed, A2 serde_derive, A4 capacities, A8 error taxonomy, A9 item skipper).
//! Concrete message shapes, symbolic leaf values.  These are bounded stand-ins: they are labelled
//! `gc` in the evidence and never counted as proved.
use crate::ctap2::{self, large_blobs, AuthenticatorOptions, Error, Request};
use crate::webauthn::*;
use cbor_smol::{cbor_deserialize, cbor_serialize};

fn small() -> u8 {
    let v: u8 = kani::any();
    kani::assume(v < 24);
    v
}

/// A1: key = position + 1, optional <=> skip_serializing_if, absent => None, values exact.
#[kani::proof]
#[kani::unwind(12)]
pub fn gc_k_large_blobs_request_decode() {
    let (g, o, l) = (small(), small(), small());
    // {1: g, 3: o, 4: l}
    let msg = [0xA3, 0x01, g, 0x03, o, 0x04, l];
    let r: large_blobs::Request = cbor_deserialize(&msg).unwrap();
    assert!(r.get == Some(g as u32), "GC/C01: key 1 is `get`");
    assert!(r.offset == o as u32, "GC/C01: key 3 is `offset`");
    assert!(r.length == Some(l as u32), "GC/C01: key 4 is `length`");
    assert!(
        r.set.is_none() && r.pin_uv_auth_param.is_none() && r.pin_uv_auth_protocol.is_none(),
        "GC/C01: absent => None"
    );
    // through the command switch: 0x0C || payload
    let full = [0x0C, 0xA3, 0x01, g, 0x03, o, 0x04, l];
    match Request::deserialize(&full) {
        Ok(Request::LargeBlobs(q)) => {
            assert!(q.get == Some(g as u32) && q.offset == o as u32 && q.length == Some(l as u32))
        }
        _ => panic!("GC/C01: LargeBlobs request not decoded through Request::deserialize"),
    };
}

/// A1 + A8 + C05: fault classes on the same struct => the status the fault calls for.
#[kani::proof]
#[kani::unwind(12)]
pub fn gc_k_large_blobs_request_faults() {
    let v = small();
    let status = |m: &[u8]| -> u8 {
        match Request::deserialize(m) {
            Ok(_) => 0,
            Err(e) => e as u8,
        }
    };
    assert!(
        status(&[0x0C, 0xA1, 0x01, v]) == 0x14,
        "GC/C05: missing required `offset` => MissingParameter"
    );
    assert!(
        status(&[0x0C, 0xA2, 0x03, v, 0x03, v]) == 0x12,
        "GC/C05: duplicate key => InvalidCbor"
    );
    assert!(
        status(&[0x0C, 0xA2, 0x03, v, 0x07, v]) == 0x12,
        "GC/C05: unknown index => InvalidCbor"
    );
    assert!(
        status(&[0x0C, 0xA1, 0x03, 0x40 | (v & 1)]) == 0x12 || v & 1 == 1,
        "GC/C05: wrong type (bytes for uint) => InvalidCbor"
    );
    assert!(
        status(&[0x0C, 0xA1, 0x03, 0x18, v]) == 0x12,
        "GC/C05: non-minimal integer => InvalidCbor"
    );
    assert!(
        status(&[0x0C, 0xBF, 0x03, v, 0xFF]) == 0x12,
        "GC/C05: indefinite-length map => InvalidCbor"
    );
    assert!(
        status(&[0x0C, 0xA1, 0x03]) == 0x12,
        "GC/C05: truncated => InvalidCbor"
    );
    assert!(
        status(&[0x0C]) == 0x12 || status(&[0x0C]) == 0x14,
        "GC/C05: no payload"
    );
    assert!(
        status(&[0x0C, 0xA1, 0x03, 0x1B, 0, 0, 0, 1, 0, 0, 0, 0]) == 0x12,
        "GC/C05: 2^32 for a uint32 => InvalidCbor"
    );
}

/// A2: text-keyed options: keys by name, all optional, unknown members skipped (C06 / A9).
#[kani::proof]
#[kani::unwind(12)]
pub fn gc_k_options_decode_and_unknown() {
    // fully concrete inputs: text-keyed decoding through cbor-smol with symbolic bytes does not finish
    options_case(true, 7);
    options_case(false, 23);
}

fn options_case(b: bool, x: u8) {
    let t = if b { 0xF5 } else { 0xF4 };
    let base = [0xA2, 0x62, b'r', b'k', t, 0x62, b'u', b'v', 0xF4];
    let o: AuthenticatorOptions = cbor_deserialize(&base).unwrap();
    assert!(
        o.rk == Some(b) && o.uv == Some(false) && o.up.is_none(),
        "GC/C01: options by name"
    );
    let x = small();
    // unknown member "zz" first / middle / last, holding: uint, text, array [x, [x]], map {x: x}, tag 1(x), float16, null
    let m1 = [
        0xA3, 0x62, b'z', b'z', x, 0x62, b'r', b'k', t, 0x62, b'u', b'v', 0xF4,
    ];
    let m2 = [
        0xA3, 0x62, b'r', b'k', t, 0x62, b'z', b'z', 0x61, b'a', 0x62, b'u', b'v', 0xF4,
    ];
    let m3 = [
        0xA3, 0x62, b'r', b'k', t, 0x62, b'u', b'v', 0xF4, 0x62, b'z', b'z', 0x82, x, 0x81, x,
    ];
    let m4 = [
        0xA3, 0x62, b'r', b'k', t, 0x62, b'z', b'z', 0xA1, x, x, 0x62, b'u', b'v', 0xF4,
    ];
    let m5 = [
        0xA3, 0x62, b'r', b'k', t, 0x62, b'z', b'z', 0xF9, 0x3C, 0x00, 0x62, b'u', b'v', 0xF4,
    ];
    let m6 = [
        0xA3, 0x62, b'r', b'k', t, 0x62, b'z', b'z', 0xF6, 0x62, b'u', b'v', 0xF4,
    ];
    for m in [&m1[..], &m2[..], &m3[..], &m4[..], &m5[..], &m6[..]] {
        match cbor_deserialize::<AuthenticatorOptions>(m) {
            Ok(p) => assert!(p == o, "GC/C06: unknown member changed the decoded options"),
            Err(_) => panic!("GC/C06: unknown member made the options fail"),
        }
    }
}

/// A4 / C12: capacity probes at N and N+1 on `PublicKeyCredentialParameters.type` (String<32>).
#[kani::proof]
#[kani::unwind(40)]
pub fn gc_k_param_type_capacity() {
    let c: u8 = b'q';
    // {"alg": -7, "type": <32 x c>}
    let mut m32 = [0u8; 12 + 2 + 32];
    let head = [
        0xA2, 0x63, b'a', b'l', b'g', 0x26, 0x64, b't', b'y', b'p', b'e', 0x78, 32,
    ];
    m32[..13].copy_from_slice(&head);
    let mut i = 0;
    while i < 32 {
        m32[13 + i] = c;
        i += 1;
    }
    let p: PublicKeyCredentialParameters = cbor_deserialize(&m32[..45]).unwrap();
    assert!(
        p.alg == -7 && p.key_type.len() == 32,
        "GC/C12: 32-byte type accepted whole"
    );
    let mut m33 = [0u8; 12 + 2 + 33];
    m33[..13].copy_from_slice(&head);
    m33[12] = 33;
    let mut i = 0;
    while i < 33 {
        m33[13 + i] = c;
        i += 1;
    }
    assert!(
        cbor_deserialize::<PublicKeyCredentialParameters>(&m33[..46]).is_err(),
        "GC/C12: 33-byte type must be rejected"
    );
}

/// A1/A2 encode side + C15: encode(decode) and decode(encode) on small bidirectional types.
#[kani::proof]
#[kani::unwind(12)]
pub fn gc_k_roundtrip_small() {
    let (g, o) = (5u8, 23u8);
    let msg = [0xA2, 0x01, g, 0x03, o];
    let r: large_blobs::Request = cbor_deserialize(&msg).unwrap();
    let mut buf = [0u8; 16];
    let out = cbor_serialize(&r, &mut buf).unwrap();
    assert!(out.len() == 5, "GC/C15: re-encoding length");
    let k: usize = kani::any();
    kani::assume(k < 5);
    assert!(
        out[k] == msg[k],
        "GC/C15: re-encoding canonical bytes must reproduce them"
    );
    let b: bool = kani::any();
    let opts = AuthenticatorOptions {
        rk: Some(b),
        up: None,
        uv: Some(!b),
    };
    let mut buf2 = [0u8; 16];
    let enc = cbor_serialize(&opts, &mut buf2).unwrap();
    let back: AuthenticatorOptions = cbor_deserialize(enc).unwrap();
    assert!(back == opts, "GC/C15: decode(encode(v)) == v");
    assert!(
        enc.len() == 9 && enc[0] == 0xA2,
        "GC/C02: unset member absent, not null"
    );
}
