//! C02 (glue) — `ctap2::Response::serialize`: GetNextAssertion encodes exactly like GetAssertion,
//! every set member appears under its key, the body equals the specification encoding.
//! Bounded: one concrete shape of the fixed members (empty credential id / authData / signature),
//! symbolic optional scalars, N = 48.
use super::cbor_spec::SpecBuf;
use crate::ctap2::{get_assertion, Response};
use crate::webauthn::PublicKeyCredentialDescriptor;
use crate::{Bytes, String, Vec};

fn ga_response(n: Option<u32>, sel: Option<bool>) -> get_assertion::Response {
    let mut r = get_assertion::ResponseBuilder {
        credential: PublicKeyCredentialDescriptor { id: Bytes::new(), key_type: String::new() },
        auth_data: Bytes::new(),
        signature: Bytes::new(),
    }
    .build();
    r.number_of_credentials = n;
    r.user_selected = sel;
    r
}

/// CTAP 2.1 §6.2.2: 1 credential, 2 authData, 3 signature, 5 numberOfCredentials, 6 userSelected
fn ga_body(n: Option<u32>, sel: Option<bool>) -> SpecBuf<48> {
    let mut b = SpecBuf::<48>::new();
    b.map(3 + n.is_some() as u64 + sel.is_some() as u64);
    b.uint(1);
    b.map(2);
    b.text(b"id");
    b.bytes(&[]);
    b.text(b"type");
    b.text(b"");
    b.uint(2);
    b.bytes(&[]);
    b.uint(3);
    b.bytes(&[]);
    if let Some(v) = n {
        b.uint(5);
        b.uint(v as u64);
    }
    if let Some(s) = sel {
        b.uint(6);
        b.bool(s);
    }
    b
}

#[kani::proof]
#[kani::unwind(50)]
pub fn c02_k_get_next_assertion_like_get_assertion() {
    let n: Option<u32> = kani::any();
    let sel: Option<bool> = kani::any();
    let mut b1: Vec<u8, 48> = Vec::new();
    let mut b2: Vec<u8, 48> = Vec::new();
    Response::GetAssertion(ga_response(n, sel)).serialize(&mut b1);
    Response::GetNextAssertion(ga_response(n, sel)).serialize(&mut b2);
    let body = ga_body(n, sel);
    assert!(b1.len() == 1 + body.len, "C02: GetAssertion response length");
    assert!(b2.len() == b1.len(), "C02: GetNextAssertion must encode exactly like GetAssertion (length)");
    let k: usize = kani::any();
    kani::assume(k < b1.len());
    assert!(b1[k] == b2[k], "C02: GetNextAssertion must encode exactly like GetAssertion");
    assert!(b1[k] == if k == 0 { 0 } else { body.buf[k - 1] }, "C02: GetAssertion response differs from the specification encoding");
    kani::cover!(n.is_some() && sel.is_some());
    kani::cover!(n.is_none() && sel.is_none());
}
