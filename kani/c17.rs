//! C17 / C02 (glue) — `ctap2::Response::serialize::<N>`: the complete message or the single
//! status byte 0x7F, independent of what the buffer held before.
//!
//! Contract: for a response whose CBOR body is `body` (specification encoder, cbor_spec.rs):
//!   1 + |body| <= N  ==>  buffer == [0x00] ++ body      (body == [A0] collapses to [0x00])
//!   otherwise        ==>  buffer == [0x7F]
//! for every pre-fill of the buffer.  N is a const generic: a finite set of instantiations
//! (bounded), bodies cross each N by varying the response.
use super::cbor_spec::{assert_same, SpecBuf};
use crate::ctap2::{client_pin, get_assertion, large_blobs, Response};
use crate::webauthn::PublicKeyCredentialDescriptor;
use crate::{Bytes, String, Vec};

fn prefilled<const N: usize>() -> Vec<u8, N> {
    let mut buffer: Vec<u8, N> = Vec::new();
    let pre: usize = kani::any();
    kani::assume(pre <= N);
    let mut i = 0;
    while i < pre {
        buffer.push(kani::any()).unwrap();
        i += 1;
    }
    buffer
}

/// postcondition of Response::serialize for a known specification body
fn post<const N: usize, const M: usize>(buffer: &Vec<u8, N>, body: &SpecBuf<M>) {
    let empty_map = body.len == 1 && body.buf[0] == 0xA0;
    if body.len == 0 || empty_map {
        assert!(
            buffer.len() == 1 && buffer[0] == 0x00,
            "C02/C17: a response without members is the status byte alone"
        );
    } else if 1 + body.len <= N {
        assert!(
            buffer.len() == 1 + body.len,
            "C17: complete message expected (length)"
        );
        assert!(buffer[0] == 0x00, "C02: success status byte");
        let k: usize = kani::any();
        kani::assume(k < body.len);
        assert!(
            buffer[1 + k] == body.buf[k],
            "C02/C17: body differs from the specification encoding"
        );
    } else {
        assert!(buffer.len() == 1, "C17: truncated body emitted");
        assert!(
            buffer[0] == 0x7F,
            "C17: status of a response that does not fit must be 0x7F"
        );
    }
}

/// specification encoding of a ClientPin response with scalar members (CTAP 2.1 §6.5.5: 3 pinRetries,
/// 4 powerCycleState, 5 uvRetries)
fn client_pin_body(retries: Option<u8>, pcs: Option<bool>, uv: Option<u8>) -> SpecBuf<16> {
    let mut b = SpecBuf::<16>::new();
    let n = retries.is_some() as u64 + pcs.is_some() as u64 + uv.is_some() as u64;
    b.map(n);
    if let Some(r) = retries {
        b.uint(3);
        b.uint(r as u64);
    }
    if let Some(p) = pcs {
        b.uint(4);
        b.bool(p);
    }
    if let Some(u) = uv {
        b.uint(5);
        b.uint(u as u64);
    }
    b
}

fn client_pin_case<const N: usize>() {
    let retries: Option<u8> = kani::any();
    let pcs: Option<bool> = kani::any();
    let uv: Option<u8> = kani::any();
    let mut r = client_pin::Response::default();
    r.retries = retries;
    r.power_cycle_state = pcs;
    r.uv_retries = uv;
    let resp = Response::ClientPin(r);
    let body = client_pin_body(retries, pcs, uv);
    // the one input recorded in known_findings.txt (capacity 1, no member set) has its own harness
    kani::assume(!(N == 1 && body.len == 1));
    let mut buffer = prefilled::<N>();
    resp.serialize(&mut buffer);
    post(&buffer, &body);
    // bodies are 1 (no member) or 3..=9 bytes long: both outcomes must be reachable wherever they exist
    // (a cover in a branch that is dead for this N would be reported unsatisfiable, hence the disjunctions)
    kani::cover!(N < 2 || 1 + body.len <= N);
    kani::cover!(N > 9 || 1 + body.len > N);
}

#[kani::proof]
#[kani::unwind(18)]
pub fn c17_k_client_pin_n1_n2_n3() {
    client_pin_case::<1>();
    client_pin_case::<2>();
    client_pin_case::<3>();
}

#[kani::proof]
#[kani::unwind(18)]
pub fn c17_k_client_pin_n5() {
    client_pin_case::<5>();
}

#[kani::proof]
#[kani::unwind(18)]
pub fn c17_k_client_pin_n8() {
    client_pin_case::<8>();
}

#[kani::proof]
#[kani::unwind(18)]
pub fn c17_k_client_pin_n16() {
    client_pin_case::<16>();
}

/// parameter-less responses encode as the status byte alone, for every capacity >= 1 tried
#[kani::proof]
#[kani::unwind(18)]
pub fn c17_k_parameterless() {
    let mut b1 = prefilled::<1>();
    Response::Reset.serialize(&mut b1);
    assert!(
        b1.len() == 1 && b1[0] == 0,
        "C02: Reset response must be [00]"
    );
    let mut b2 = prefilled::<1>();
    Response::Selection.serialize(&mut b2);
    assert!(
        b2.len() == 1 && b2[0] == 0,
        "C02: Selection response must be [00]"
    );
    let mut b3 = prefilled::<1>();
    Response::Vendor.serialize(&mut b3);
    assert!(
        b3.len() == 1 && b3[0] == 0,
        "C02: Vendor response must be [00]"
    );
    let mut b16 = prefilled::<16>();
    Response::Reset.serialize(&mut b16);
    assert!(
        b16.len() == 1 && b16[0] == 0,
        "C02: parameter-less response must be [00]"
    );
}

/// LargeBlobs: no member => [00]; config = empty byte string => 00 A1 01 40 (or 7F when N < 4)
fn large_blobs_case<const N: usize>() {
    let present: bool = kani::any();
    let resp = Response::LargeBlobs(large_blobs::Response {
        config: if present { Some(Bytes::new()) } else { None },
    });
    let mut buffer = prefilled::<N>();
    resp.serialize(&mut buffer);
    let mut body = SpecBuf::<4>::new();
    if present {
        body.map(1);
        body.uint(1);
        body.bytes(&[]);
    } else {
        body.map(0);
    }
    post(&buffer, &body);
}

#[kani::proof]
#[kani::unwind(18)]
pub fn c17_k_large_blobs_n3_n4() {
    large_blobs_case::<3>();
    large_blobs_case::<4>();
}

/// KNOWN FINDING (known_findings.txt): with a capacity of exactly one byte, a map-bodied response
/// with no member set comes out as [7F] instead of the complete message [00] — the intermediate
/// empty map A0 does not fit behind the status byte before it is collapsed.
#[kani::proof]
#[kani::unwind(18)]
pub fn c17_k_capacity_one_memberless_response() {
    let resp = Response::ClientPin(client_pin::Response::default());
    let mut buffer = prefilled::<1>();
    resp.serialize(&mut buffer);
    let body = client_pin_body(None, None, None);
    post(&buffer, &body);
}
