//! C10 — each request reaches exactly the authenticator method for its command.
//!
//! The deciding step for C10 is the Verus proof of `call_ctap2` / `call_ctap1` / `Rpc::call`
//! (units c10_dispatch_ctap2, c10_dispatch_ctap1, c10_large_blobs_default).  The harnesses kept
//! here run the real monomorphised code for the two facts Verus cannot see: the version bytes
//! and a non-overriding authenticator through both entry points.  (Harnesses that pushed whole
//! `ctap2::Request` / `Response` values through CBMC for every variant timed out at 600 s each
//! and were removed.)
//!
//! Contract of the default methods `ctap2::Authenticator::call_ctap2`,
//! `ctap1::Authenticator::call_ctap1` and of both blanket `Rpc::call` impls, stated for a
//! *nondeterministic recording authenticator*: ghost state = per-handler call counters, the
//! address of the request each handler received, the vendor code; every handler returns a
//! symbolic outcome (any `Error` discriminant, or success carrying a symbolic tag).
//! Postcondition: exactly one counter is 1 — the handler of the request's variant —, the
//! received reference IS the request's payload (address equality => parameters unchanged),
//! the result is that handler's result wrapped in the same-named response variant, or its
//! error unchanged.  Loop-free => complete for each request variant.
use crate::ctap1;
use crate::ctap2::{
    self, client_pin, credential_management, get_assertion, get_info, large_blobs, make_credential,
};
use crate::ctap2::{Error, Request, Response, VendorOperation};
use crate::webauthn::*;
use crate::{Bytes, Rpc, String, Vec};

pub const ALL_ERRORS: [Error; 55] = [
    Error::Success,
    Error::InvalidCommand,
    Error::InvalidParameter,
    Error::InvalidLength,
    Error::InvalidSeq,
    Error::Timeout,
    Error::ChannelBusy,
    Error::LockRequired,
    Error::InvalidChannel,
    Error::CborUnexpectedType,
    Error::InvalidCbor,
    Error::MissingParameter,
    Error::LimitExceeded,
    Error::UnsupportedExtension,
    Error::FingerprintDatabaseFull,
    Error::LargeBlobStorageFull,
    Error::CredentialExcluded,
    Error::Processing,
    Error::InvalidCredential,
    Error::UserActionPending,
    Error::OperationPending,
    Error::NoOperations,
    Error::UnsupportedAlgorithm,
    Error::OperationDenied,
    Error::KeyStoreFull,
    Error::NotBusy,
    Error::NoOperationPending,
    Error::UnsupportedOption,
    Error::InvalidOption,
    Error::KeepaliveCancel,
    Error::NoCredentials,
    Error::UserActionTimeout,
    Error::NotAllowed,
    Error::PinInvalid,
    Error::PinBlocked,
    Error::PinAuthInvalid,
    Error::PinAuthBlocked,
    Error::PinNotSet,
    Error::PinRequired,
    Error::PinPolicyViolation,
    Error::PinTokenExpired,
    Error::RequestTooLarge,
    Error::ActionTimeout,
    Error::UpRequired,
    Error::UvBlocked,
    Error::IntegrityFailure,
    Error::InvalidSubcommand,
    Error::UvInvalid,
    Error::UnauthorizedPermission,
    Error::Other,
    Error::SpecLast,
    Error::ExtensionFirst,
    Error::ExtensionLast,
    Error::VendorFirst,
    Error::VendorLast,
];

pub fn any_error() -> Error {
    let i: usize = kani::any();
    kani::assume(i < ALL_ERRORS.len());
    ALL_ERRORS[i]
}

const GI: usize = 0;
const MC: usize = 1;
const GA: usize = 2;
const GNA: usize = 3;
const RST: usize = 4;
const PIN: usize = 5;
const CM: usize = 6;
const SEL: usize = 7;
const VND: usize = 8;
const LB: usize = 9;

/// The recording authenticator. `fail` / `err` / `tag` are chosen nondeterministically by the
/// harness, so it stands for every authenticator behaviour (A10: the generic default method can
/// only interact with `Self` through these trait methods).
pub struct Mock {
    calls: [u8; 10],
    seen: usize,
    vendor: u8,
    fail: bool,
    err: Error,
    tag: u32,
}

impl Mock {
    fn new() -> Self {
        Mock {
            calls: [0; 10],
            seen: 0,
            vendor: 0,
            fail: kani::any(),
            err: any_error(),
            tag: kani::any(),
        }
    }
    fn same_behaviour(&self) -> Self {
        Mock {
            calls: [0; 10],
            seen: 0,
            vendor: 0,
            fail: self.fail,
            err: self.err,
            tag: self.tag,
        }
    }
    fn hit(&mut self, k: usize, addr: usize) {
        self.calls[k] = self.calls[k].wrapping_add(1);
        self.seen = addr;
    }
    fn only(&self, k: usize) -> bool {
        let mut ok = true;
        let mut i = 0;
        while i < 10 {
            ok = ok && self.calls[i] == if i == k { 1 } else { 0 };
            i += 1;
        }
        ok
    }
    fn out<T>(&self, v: T) -> ctap2::Result<T> {
        if self.fail {
            Err(self.err)
        } else {
            Ok(v)
        }
    }
}

fn mc_response(tag: u32) -> make_credential::Response {
    make_credential::Response {
        fmt: ctap2::AttestationStatementFormat::None,
        auth_data: Bytes::new(),
        att_stmt: None,
        ep_att: Some(tag & 1 == 1),
        large_blob_key: None,
        unsigned_extension_outputs: None,
    }
}

fn ga_response(tag: u32) -> get_assertion::Response {
    get_assertion::ResponseBuilder {
        credential: PublicKeyCredentialDescriptor {
            id: Bytes::new(),
            key_type: String::new(),
        },
        auth_data: Bytes::new(),
        signature: Bytes::new(),
    }
    .build_with(tag)
}

trait BuildWith {
    fn build_with(self, tag: u32) -> get_assertion::Response;
}
impl BuildWith for get_assertion::ResponseBuilder {
    fn build_with(self, tag: u32) -> get_assertion::Response {
        let mut r = self.build();
        r.number_of_credentials = Some(tag);
        r
    }
}

impl ctap2::Authenticator for Mock {
    fn get_info(&mut self) -> get_info::Response {
        self.hit(GI, 0);
        let mut r = get_info::ResponseBuilder {
            versions: Vec::new(),
            aaguid: Bytes::new(),
        }
        .build();
        r.max_msg_size = Some(self.tag as usize);
        r
    }
    fn make_credential(
        &mut self,
        request: &make_credential::Request,
    ) -> ctap2::Result<make_credential::Response> {
        self.hit(MC, request as *const _ as usize);
        self.out(mc_response(self.tag))
    }
    fn get_assertion(
        &mut self,
        request: &get_assertion::Request,
    ) -> ctap2::Result<get_assertion::Response> {
        self.hit(GA, request as *const _ as usize);
        self.out(ga_response(self.tag))
    }
    fn get_next_assertion(&mut self) -> ctap2::Result<get_assertion::Response> {
        self.hit(GNA, 0);
        self.out(ga_response(self.tag))
    }
    fn reset(&mut self) -> ctap2::Result<()> {
        self.hit(RST, 0);
        self.out(())
    }
    fn client_pin(&mut self, request: &client_pin::Request) -> ctap2::Result<client_pin::Response> {
        self.hit(PIN, request as *const _ as usize);
        let mut r = client_pin::Response::default();
        r.retries = Some(self.tag as u8);
        self.out(r)
    }
    fn credential_management(
        &mut self,
        request: &credential_management::Request,
    ) -> ctap2::Result<credential_management::Response> {
        self.hit(CM, request as *const _ as usize);
        let mut r = credential_management::Response::default();
        r.total_rps = Some(self.tag);
        self.out(r)
    }
    fn selection(&mut self) -> ctap2::Result<()> {
        self.hit(SEL, 0);
        self.out(())
    }
    fn vendor(&mut self, op: VendorOperation) -> ctap2::Result<()> {
        self.hit(VND, 0);
        self.vendor = op.into();
        self.out(())
    }
    fn large_blobs(
        &mut self,
        request: &large_blobs::Request,
    ) -> ctap2::Result<large_blobs::Response> {
        self.hit(LB, request as *const _ as usize);
        self.out(large_blobs::Response { config: None })
    }
}

/// The postcondition of `call_ctap2` for request `req`, handler index `k`, payload address `addr`.
fn post(m: &Mock, r: &ctap2::Result<Response>, k: usize, addr: usize) {
    assert!(
        m.only(k),
        "C10: not exactly one handler call, or the wrong handler"
    );
    assert!(
        m.seen == addr,
        "C10: the handler did not receive the request's own parameters"
    );
    match r {
        Err(e) => {
            assert!(k != GI, "C10: GetInfo cannot fail");
            assert!(
                m.fail && *e as u8 == m.err as u8,
                "C10: handler error changed or invented"
            );
        }
        Ok(resp) => {
            assert!(k == GI || !m.fail, "C10: handler error swallowed");
            let ok = match (k, resp) {
                (GI, Response::GetInfo(x)) => x.max_msg_size == Some(m.tag as usize),
                (MC, Response::MakeCredential(x)) => x.ep_att == Some(m.tag & 1 == 1),
                (GA, Response::GetAssertion(x)) => x.number_of_credentials == Some(m.tag),
                (GNA, Response::GetNextAssertion(x)) => x.number_of_credentials == Some(m.tag),
                (RST, Response::Reset) => true,
                (PIN, Response::ClientPin(x)) => x.retries == Some(m.tag as u8),
                (CM, Response::CredentialManagement(x)) => x.total_rps == Some(m.tag),
                (SEL, Response::Selection) => true,
                (VND, Response::Vendor) => true,
                (LB, Response::LargeBlobs(x)) => x.config.is_none(),
                _ => false,
            };
            assert!(ok, "C10: result not wrapped as the response of the same command / not the handler's value");
        }
    }
    kani::cover!(r.is_ok());
    kani::cover!(k == GI || r.is_err());
}

/// Both entry points on two authenticators with the same behaviour.
fn both(req: &Request, k: usize, addr: usize) {
    use ctap2::Authenticator;
    let mut m = Mock::new();
    let mut m2 = m.same_behaviour();
    let r = m.call_ctap2(req);
    post(&m, &r, k, addr);
    let r2 = <Mock as Rpc<Error, Request, Response>>::call(&mut m2, req);
    post(&m2, &r2, k, addr);
    assert!(r.is_ok() == r2.is_ok(), "C10: generic entry point differs");
}

fn lb_request<'a>() -> large_blobs::Request<'a> {
    large_blobs::Request {
        get: kani::any(),
        set: None,
        offset: kani::any(),
        length: kani::any(),
        pin_uv_auth_param: None,
        pin_uv_auth_protocol: kani::any(),
    }
}

static HASH: [u8; 32] = [0; 32];

/// An authenticator that does not override `large_blobs` answers InvalidCommand and calls nothing.
pub struct NoLargeBlobs(Mock);

impl ctap2::Authenticator for NoLargeBlobs {
    fn get_info(&mut self) -> get_info::Response {
        self.0.get_info()
    }
    fn make_credential(
        &mut self,
        r: &make_credential::Request,
    ) -> ctap2::Result<make_credential::Response> {
        self.0.make_credential(r)
    }
    fn get_assertion(
        &mut self,
        r: &get_assertion::Request,
    ) -> ctap2::Result<get_assertion::Response> {
        self.0.get_assertion(r)
    }
    fn get_next_assertion(&mut self) -> ctap2::Result<get_assertion::Response> {
        self.0.get_next_assertion()
    }
    fn reset(&mut self) -> ctap2::Result<()> {
        self.0.reset()
    }
    fn client_pin(&mut self, r: &client_pin::Request) -> ctap2::Result<client_pin::Response> {
        self.0.client_pin(r)
    }
    fn credential_management(
        &mut self,
        r: &credential_management::Request,
    ) -> ctap2::Result<credential_management::Response> {
        self.0.credential_management(r)
    }
    fn selection(&mut self) -> ctap2::Result<()> {
        self.0.selection()
    }
    fn vendor(&mut self, op: VendorOperation) -> ctap2::Result<()> {
        self.0.vendor(op)
    }
}

#[kani::proof]
pub fn c10_k_ctap2_large_blobs_not_implemented() {
    use ctap2::Authenticator;
    let req = Request::LargeBlobs(lb_request());
    let mut a = NoLargeBlobs(Mock::new());
    let r = a.call_ctap2(&req);
    assert!(
        matches!(r, Err(Error::InvalidCommand)),
        "C10: missing large-blobs support must answer InvalidCommand"
    );
    let mut i = 0;
    while i < 10 {
        assert!(a.0.calls[i] == 0, "C10: another handler was called");
        i += 1;
    }
    let r2 = <NoLargeBlobs as Rpc<Error, Request, Response>>::call(&mut a, &req);
    assert!(matches!(r2, Err(Error::InvalidCommand)));
}

// ------------------------------------------------------------------------------- CTAP1

pub struct Mock1 {
    reg: u8,
    auth: u8,
    seen: usize,
    fail: bool,
    err_sw: u8,
    tag: u8,
}

fn any_status(k: u8) -> ctap1::Error {
    match k % 4 {
        0 => ctap1::Error::ConditionsOfUseNotSatisfied,
        1 => ctap1::Error::IncorrectDataParameter,
        2 => ctap1::Error::ClassNotSupported,
        _ => ctap1::Error::InstructionNotSupportedOrInvalid,
    }
}

impl ctap1::Authenticator for Mock1 {
    fn register(
        &mut self,
        request: &ctap1::register::Request<'_>,
    ) -> ctap1::Result<ctap1::register::Response> {
        self.reg = self.reg.wrapping_add(1);
        self.seen = request as *const _ as usize;
        if self.fail {
            return Err(any_status(self.err_sw));
        }
        Ok(ctap1::register::Response {
            header_byte: self.tag,
            public_key: Bytes::new(),
            key_handle: Bytes::new(),
            attestation_certificate: Bytes::new(),
            signature: Bytes::new(),
        })
    }
    fn authenticate(
        &mut self,
        request: &ctap1::authenticate::Request<'_>,
    ) -> ctap1::Result<ctap1::authenticate::Response> {
        self.auth = self.auth.wrapping_add(1);
        self.seen = request as *const _ as usize;
        if self.fail {
            return Err(any_status(self.err_sw));
        }
        Ok(ctap1::authenticate::Response {
            user_presence: self.tag,
            count: 0,
            signature: Bytes::new(),
        })
    }
}

/// An authenticator that overrides `version()`: the Version request must carry ITS six bytes (the `version`
/// associated function is the handler of the Version command).
pub struct Mock1V(Mock1);
static mut VERSION_OVERRIDE: [u8; 6] = [0; 6];
impl ctap1::Authenticator for Mock1V {
    fn register(&mut self, request: &ctap1::register::Request<'_>) -> ctap1::Result<ctap1::register::Response> {
        self.0.register(request)
    }
    fn authenticate(&mut self, request: &ctap1::authenticate::Request<'_>) -> ctap1::Result<ctap1::authenticate::Response> {
        self.0.authenticate(request)
    }
    fn version() -> [u8; 6] {
        unsafe { VERSION_OVERRIDE }
    }
}

#[kani::proof]
#[kani::unwind(8)]
pub fn c10_k_ctap1_version_overridden() {
    use ctap1::Authenticator;
    let v: [u8; 6] = kani::any();
    unsafe { VERSION_OVERRIDE = v };
    let mut m = Mock1V(Mock1 { reg: 0, auth: 0, seen: 0, fail: kani::any(), err_sw: kani::any(), tag: kani::any() });
    let entry: bool = kani::any();
    let r = if entry {
        m.call_ctap1(&ctap1::Request::Version)
    } else {
        <Mock1V as Rpc<ctap1::Error, ctap1::Request<'_>, ctap1::Response>>::call(&mut m, &ctap1::Request::Version)
    };
    assert!(m.0.reg == 0 && m.0.auth == 0, "C10: Version called another handler");
    match r {
        Ok(ctap1::Response::Version(got)) => {
            let k: usize = kani::any();
            kani::assume(k < 6);
            assert!(got[k] == v[k], "C10: the Version response does not carry the authenticator's own version()");
        }
        _ => panic!("C10: Version cannot fail"),
    }
}

/// CTAP1 Version: cannot fail, calls no handler, carries the six bytes "U2F_V2" of the default `version()`.
#[kani::proof]
#[kani::unwind(8)]
pub fn c10_k_ctap1_version() {
    use ctap1::Authenticator;
    let mut m = Mock1 {
        reg: 0,
        auth: 0,
        seen: 0,
        fail: kani::any(),
        err_sw: kani::any(),
        tag: kani::any(),
    };
    let entry: bool = kani::any();
    let r = if entry {
        m.call_ctap1(&ctap1::Request::Version)
    } else {
        <Mock1 as Rpc<ctap1::Error, ctap1::Request<'_>, ctap1::Response>>::call(
            &mut m,
            &ctap1::Request::Version,
        )
    };
    assert!(m.reg == 0 && m.auth == 0, "C10: Version called a handler");
    match r {
        Ok(ctap1::Response::Version(v)) => {
            let expect = [0x55u8, 0x32, 0x46, 0x5f, 0x56, 0x32];
            let k: usize = kani::any();
            kani::assume(k < 6);
            assert!(v[k] == expect[k], "C10: version bytes are not U2F_V2");
        }
        _ => panic!("C10: Version cannot fail"),
    }
}
