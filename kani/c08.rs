//! C08 — CTAP1/U2F APDU parsing is total and follows the U2F raw message format.
//!
//! Contract of `impl TryFrom<CommandView<'a>> for ctap1::Request<'a>` (and of
//! `TryFrom<&Command<S>>`): the postcondition is the decision table of the property statement,
//! evaluated on the raw class / instruction / P1 bytes and the data window of the APDU.
//! Borrowed outputs are compared by *pointer identity* with the input window (zero-copy,
//! "exactly the bytes sent").  Loop-free: the harness is a complete proof for the stated
//! APDU size.
use crate::ctap1::{ControlByte, Error, Request};
use iso7816::command::CommandView;

/// U2F raw message format, as a decision table (written from the property statement).
#[derive(PartialEq, Eq, Clone, Copy)]
enum Spec {
    ClassNotSupported,
    Version,
    Register,
    Authenticate(u8),
    IncorrectDataParameter,
    InstructionNotSupportedOrInvalid,
}

fn spec(cla: u8, ins: u8, p1: u8, data: &[u8]) -> Spec {
    if cla != 0 {
        return Spec::ClassNotSupported;
    }
    match ins {
        3 => Spec::Version,
        1 => {
            if data.len() == 64 {
                Spec::Register
            } else {
                Spec::IncorrectDataParameter
            }
        }
        2 => {
            let p1_ok = p1 == 0x03 || p1 == 0x07 || p1 == 0x08;
            if p1_ok && data.len() >= 65 && data.len() == 65 + data[64] as usize {
                Spec::Authenticate(p1)
            } else {
                Spec::IncorrectDataParameter
            }
        }
        _ => Spec::InstructionNotSupportedOrInvalid,
    }
}

fn check(view: CommandView<'_>, r: Result<Request<'_>, Error>) {
    let cla = view.class().into_inner();
    let ins: u8 = view.instruction().into();
    let p1 = view.p1;
    let data = view.data();
    let s = spec(cla, ins, p1, data);
    match r {
        Err(Error::ClassNotSupported) => assert!(
            s == Spec::ClassNotSupported,
            "C08: spurious ClassNotSupported"
        ),
        Err(Error::IncorrectDataParameter) => {
            assert!(
                s == Spec::IncorrectDataParameter,
                "C08: spurious IncorrectDataParameter"
            )
        }
        Err(Error::InstructionNotSupportedOrInvalid) => {
            assert!(
                s == Spec::InstructionNotSupportedOrInvalid,
                "C08: spurious InstructionNotSupportedOrInvalid"
            )
        }
        Err(_) => panic!("C08: an error outside the U2F set"),
        Ok(Request::Version) => assert!(s == Spec::Version, "C08: spurious Version"),
        Ok(Request::Register(reg)) => {
            assert!(
                s == Spec::Register,
                "C08: Register accepted against the format"
            );
            assert!(
                reg.challenge.as_ptr() == data.as_ptr(),
                "C08: challenge is not data[0..32]"
            );
            assert!(
                reg.app_id.as_ptr() == data[32..].as_ptr(),
                "C08: application is not data[32..64]"
            );
        }
        Ok(Request::Authenticate(auth)) => {
            assert!(
                s == Spec::Authenticate(p1),
                "C08: Authenticate accepted against the format"
            );
            assert!(
                auth.control_byte as u8 == p1,
                "C08: control byte differs from P1"
            );
            assert!(
                auth.challenge.as_ptr() == data.as_ptr(),
                "C08: challenge is not data[0..32]"
            );
            assert!(
                auth.app_id.as_ptr() == data[32..].as_ptr(),
                "C08: application is not data[32..64]"
            );
            assert!(
                auth.key_handle.as_ptr() == data[65..].as_ptr(),
                "C08: key handle is not data[65..]"
            );
            assert!(
                auth.key_handle.len() == data[64] as usize,
                "C08: key handle length"
            );
            assert!(
                auth.key_handle.len() == data.len() - 65,
                "C08: key handle does not end with the data"
            );
        }
    }
}

fn covers(view: CommandView<'_>) {
    let cla = view.class().into_inner();
    let ins: u8 = view.instruction().into();
    let p1 = view.p1;
    let data = view.data();
    let s = spec(cla, ins, p1, data);
    // vacuity guards: every row of the table is reachable
    kani::cover!(s == Spec::ClassNotSupported);
    kani::cover!(s == Spec::Version);
    kani::cover!(s == Spec::Register);
    kani::cover!(matches!(s, Spec::Authenticate(_)) && data.len() == 65);
    kani::cover!(matches!(s, Spec::Authenticate(_)) && data.len() == 65 + 255);
    kani::cover!(s == Spec::IncorrectDataParameter && ins == 1);
    kani::cover!(s == Spec::IncorrectDataParameter && ins == 2 && (p1 == 3 || p1 == 7 || p1 == 8));
    kani::cover!(
        s == Spec::IncorrectDataParameter
            && ins == 2
            && data.len() >= 65
            && data.len() == 65 + data[64] as usize
    );
    kani::cover!(s == Spec::InstructionNotSupportedOrInvalid);
    kani::cover!(view.extended);
    kani::cover!(!view.extended && view.data().len() > 0);
}

fn run<const N: usize>() {
    let buf: [u8; N] = kani::any();
    let n: usize = kani::any();
    kani::assume(n <= N);
    let apdu = &buf[..n];
    // every CommandView that exists is produced by this (its fields are private)
    if let Ok(view) = CommandView::try_from(apdu) {
        let r = Request::try_from(view);
        check(view, r);
        covers(view);
    }
}

/// All APDUs up to 400 bytes: covers every decision boundary (64, 65, 65+255 and their neighbours)
/// in all four length encodings.
#[kani::proof]
pub fn c08_k_apdu_400() {
    run::<400>();
}

/// The whole ISO 7816 short + extended APDU domain (4 + 3 + 65535 + 2 bytes, rounded up).
#[kani::proof]
pub fn c08_k_apdu_65600() {
    run::<65600>();
}

/// `TryFrom<&Command<S>>` delegates to the view conversion: same table for an owned command.
#[kani::proof]
pub fn c08_k_owned_command() {
    let buf: [u8; 80] = kani::any();
    let n: usize = kani::any();
    kani::assume(n <= 80);
    if let Ok(cmd) = iso7816::Command::<72>::try_from(&buf[..n]) {
        let r = Request::try_from(&cmd);
        kani::cover!(matches!(r, Ok(Request::Register(_))));
        kani::cover!(matches!(r, Ok(Request::Authenticate(_))));
        check(cmd.as_view(), r);
    }
}

/// Cheap variant of the above for the quick tier (owned command of capacity 8).
#[kani::proof]
pub fn c08_k_owned_command_small() {
    let buf: [u8; 14] = kani::any();
    let n: usize = kani::any();
    kani::assume(n <= 14);
    if let Ok(cmd) = iso7816::Command::<8>::try_from(&buf[..n]) {
        let r = Request::try_from(&cmd);
        kani::cover!(matches!(r, Ok(Request::Version)));
        kani::cover!(matches!(r, Err(Error::IncorrectDataParameter)));
        check(cmd.as_view(), r);
    }
}

/// iso7816 framing (checked, not assumed): the data window of a parsed APDU is the Lc-delimited
/// window of the raw bytes, for the short and extended encodings (ISO 7816-4 table 5).
#[kani::proof]
pub fn c08_k_data_window() {
    let buf: [u8; 400] = kani::any();
    let n: usize = kani::any();
    kani::assume(n <= 400);
    let apdu = &buf[..n];
    if let Ok(view) = CommandView::try_from(apdu) {
        let d = view.data();
        assert!(n >= 4);
        let body = n - 4;
        if d.len() > 0 {
            if apdu[4] != 0 {
                // short Lc
                assert!(d.len() == apdu[4] as usize, "C08: short Lc");
                assert!(d.as_ptr() == apdu[5..].as_ptr(), "C08: short data offset");
                assert!(
                    body == 1 + d.len() || body == 2 + d.len(),
                    "C08: short framing"
                );
            } else {
                assert!(body >= 3);
                let lc = ((apdu[5] as usize) << 8) | apdu[6] as usize;
                assert!(d.len() == lc, "C08: extended Lc");
                assert!(
                    d.as_ptr() == apdu[7..].as_ptr(),
                    "C08: extended data offset"
                );
                assert!(body == 3 + lc || body == 5 + lc, "C08: extended framing");
            }
        }
        assert!(view.class().into_inner() == apdu[0]);
        assert!(u8::from(view.instruction()) == apdu[1]);
        assert!(view.p1 == apdu[2] && view.p2 == apdu[3]);
    }
}
