//! Vacuity canary for Engine K: this harness MUST FAIL; the driver (thorough tier) treats a passing
//! canary as a broken check.
#[kani::proof]
pub fn canary_k_must_fail() {
    let x: u8 = kani::any();
    kani::assume(x < 200);
    assert!(x != 7, "canary: this assertion is false for x == 7");
}
