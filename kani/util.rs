//! Helpers shared by the proof modules.

/// A symbolic prefix of a symbolic array: `&buf[..n]` with `n <= N` nondeterministic.
pub fn any_prefix<const N: usize>(buf: &[u8; N]) -> &[u8] {
    let n: usize = kani::any();
    kani::assume(n <= N);
    &buf[..n]
}
