//! C09 — syntax-agnostic backstop for the Verus proof of `ctap1::Response::serialize` (unit
//! c09_ctap1_response): the real monomorphised code with the real heapless containers, for a
//! small capacity with a symbolic pre-fill (so every *remaining* capacity 0..=S is explored) and
//! small symbolic parts.  Bounded.
use crate::ctap1::{authenticate, register, Response};
use crate::Bytes;
use iso7816::Data;

const S: usize = 80;

fn prefill() -> Data<S> {
    let mut buf: Data<S> = Data::new();
    let pre: usize = kani::any();
    kani::assume(pre <= S);
    let mut i = 0;
    while i < pre {
        buf.push(kani::any()).unwrap();
        i += 1;
    }
    buf
}

fn small_bytes<const N: usize>(max: usize) -> Bytes<N> {
    let mut b: Bytes<N> = Bytes::new();
    let n: usize = kani::any();
    kani::assume(n <= max);
    let mut i = 0;
    while i < n {
        b.push(kani::any()).unwrap();
        i += 1;
    }
    b
}

#[kani::proof]
#[kani::unwind(82)]
pub fn c09_k_authenticate_small() {
    let mut buf = prefill();
    let pre = buf.len();
    let sig = small_bytes::<72>(2);
    let auth = authenticate::Response { user_presence: kani::any(), count: kani::any(), signature: sig };
    let (up, count, sl) = (auth.user_presence, auth.count, auth.signature.len());
    let s0 = if sl > 0 { auth.signature[0] } else { 0 };
    let r = Response::Authenticate(auth).serialize(&mut buf);
    let need = 5 + sl;
    assert!(r.is_ok() == (pre + need <= S), "C09: success iff the message fits");
    assert!(buf.len() >= pre);
    if r.is_ok() {
        assert!(buf.len() == pre + need, "C09: appended length is the sum of the parts");
        assert!(buf[pre] == up, "C09: user presence byte first");
        assert!(buf[pre + 1] == (count >> 24) as u8 && buf[pre + 2] == (count >> 16) as u8
            && buf[pre + 3] == (count >> 8) as u8 && buf[pre + 4] == count as u8, "C09: counter is big endian");
        if sl > 0 {
            assert!(buf[pre + 5] == s0, "C09: signature follows the counter");
        }
    }
}

#[kani::proof]
#[kani::unwind(82)]
pub fn c09_k_register_small() {
    let mut buf = prefill();
    let pre = buf.len();
    let mut pk: Bytes<65> = Bytes::new();
    let mut i = 0;
    while i < 65 {
        pk.push(kani::any()).unwrap();
        i += 1;
    }
    let reg = register::Response {
        header_byte: kani::any(),
        public_key: pk,
        key_handle: small_bytes::<255>(2),
        attestation_certificate: small_bytes::<1024>(2),
        signature: small_bytes::<72>(2),
    };
    let (hb, kl, cl, sl) = (reg.header_byte, reg.key_handle.len(), reg.attestation_certificate.len(), reg.signature.len());
    let r = Response::Register(reg).serialize(&mut buf);
    let need = 1 + 65 + 1 + kl + cl + sl;
    assert!(r.is_ok() == (pre + need <= S), "C09: success iff the message fits (never a panic)");
    if r.is_ok() {
        assert!(buf.len() == pre + need, "C09: appended length is the sum of the parts");
        assert!(buf[pre] == hb, "C09: reserved byte first");
        assert!(buf[pre + 66] == kl as u8, "C09: key-handle length byte after the 65-byte key");
    }
    kani::cover!(pre + need == S);
    kani::cover!(pre + need == S + 1);
}
