//! C03 — shortest-form heads: checks the assumed contract A6 of cbor-smol's serializer on the
//! real code instead of assuming it.  For every u64 / i64 / i32 / u8 / bool the encoding is the
//! RFC 8949 shortest form (specification encoder cbor_spec.rs), across all head-size thresholds
//! (24, 256, 65536, 2^32).  Byte/text string heads for lengths up to 300.
use super::cbor_spec::{assert_same, SpecBuf};
use cbor_smol::cbor_serialize;

#[kani::proof]
#[kani::unwind(10)]
pub fn c03_k_uint_heads() {
    let v: u64 = kani::any();
    let mut buf = [0u8; 16];
    let out = cbor_serialize(&v, &mut buf).unwrap();
    let mut spec = SpecBuf::<16>::new();
    spec.uint(v);
    assert_same(out, &spec, "C03: unsigned integer is not in shortest form");
    kani::cover!(v == 23);
    kani::cover!(v == 24);
    kani::cover!(v == 0xFFFF_FFFF);
    kani::cover!(v == 0x1_0000_0000);
}

#[kani::proof]
#[kani::unwind(10)]
pub fn c03_k_int_heads() {
    let v: i64 = kani::any();
    let mut buf = [0u8; 16];
    let out = cbor_serialize(&v, &mut buf).unwrap();
    let mut spec = SpecBuf::<16>::new();
    spec.int(v);
    assert_same(out, &spec, "C03: integer is not in shortest form");
    let w: i32 = kani::any();
    let mut buf2 = [0u8; 16];
    let out2 = cbor_serialize(&w, &mut buf2).unwrap();
    let mut spec2 = SpecBuf::<16>::new();
    spec2.int(w as i64);
    assert_same(out2, &spec2, "C03: i32 is not in shortest form");
    kani::cover!(v == -24);
    kani::cover!(v == -25);
    kani::cover!(w == -7);
}

#[kani::proof]
#[kani::unwind(10)]
pub fn c03_k_small_scalars() {
    let v: u8 = kani::any();
    let mut buf = [0u8; 4];
    let out = cbor_serialize(&v, &mut buf).unwrap();
    let mut spec = SpecBuf::<4>::new();
    spec.uint(v as u64);
    assert_same(out, &spec, "C03: u8 is not in shortest form");
    let b: bool = kani::any();
    let mut buf2 = [0u8; 4];
    let out2 = cbor_serialize(&b, &mut buf2).unwrap();
    assert!(
        out2.len() == 1 && out2[0] == if b { 0xF5 } else { 0xF4 },
        "C03: bool encoding"
    );
    let u: usize = kani::any();
    let mut buf3 = [0u8; 16];
    let out3 = cbor_serialize(&u, &mut buf3).unwrap();
    let mut spec3 = SpecBuf::<16>::new();
    spec3.uint(u as u64);
    assert_same(out3, &spec3, "C03: usize is not in shortest form");
}

/// byte-string heads: definite length, shortest form, content verbatim
fn bytes_case<const CAP: usize>(n: usize) {
    let data: [u8; CAP] = kani::any();
    let mut buf = [0u8; 304];
    let out = cbor_serialize(serde_bytes::Bytes::new(&data[..n]), &mut buf).unwrap();
    let hl = if n < 24 {
        1
    } else if n < 256 {
        2
    } else {
        3
    };
    assert!(out.len() == hl + n, "C03: byte string length");
    if n < 24 {
        assert!(out[0] == 0x40 | n as u8, "C03: byte string head");
    } else if n < 256 {
        assert!(
            out[0] == 0x58 && out[1] == n as u8,
            "C03: byte string head (1-byte length)"
        );
    } else {
        assert!(
            out[0] == 0x59 && out[1] == (n >> 8) as u8 && out[2] == n as u8,
            "C03: byte string head (2-byte length)"
        );
    }
    let k: usize = kani::any();
    kani::assume(k < n);
    assert!(out[hl + k] == data[k], "C03: byte string content");
}

/// lengths 0..=30 symbolic (crosses the 23/24 threshold)
#[kani::proof]
#[kani::unwind(34)]
pub fn c03_k_string_heads_short() {
    let n: usize = kani::any();
    kani::assume(n <= 30);
    bytes_case::<30>(n);
}

/// lengths 255 and 256 (crosses the one-byte / two-byte length threshold), symbolic content
#[kani::proof]
#[kani::unwind(260)]
pub fn c03_k_string_heads_255_256() {
    bytes_case::<256>(255);
    bytes_case::<256>(256);
}
