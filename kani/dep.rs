//! dep_k_* — bounded validation, on the REAL dependency code, of the contracts that the Verus units
//! assume for heapless 0.7 / heapless-bytes 0.3 (verus/inc/heapless_contract.rs), for cbor-smol's
//! `cbor_serialize` (unit c17) and of A4 (containers accept exactly <= N on decoding, verbatim).
//! Small capacities, symbolic contents and lengths.  Labelled `gc` (assumption validation), never
//! counted as proved.
use crate::{Bytes, String, Vec};
use serde::de::value::{BorrowedStrDeserializer, BytesDeserializer, Error as VErr};
use serde::Deserialize;

fn any_vec<const N: usize>() -> Vec<u8, N> {
    let mut v: Vec<u8, N> = Vec::new();
    let n: usize = kani::any();
    kani::assume(n <= N);
    let mut i = 0;
    while i < n {
        v.push(kani::any()).unwrap();
        i += 1;
    }
    v
}

/// heapless::Vec<u8, 4>: push / extend_from_slice / resize_default / truncate exactly as assumed.
#[kani::proof]
#[kani::unwind(8)]
pub fn dep_k_heapless_vec_contract() {
    // push
    let mut v = any_vec::<4>();
    let (l0, first) = (v.len(), if v.len() > 0 { v[0] } else { 0 });
    let x: u8 = kani::any();
    match v.push(x) {
        Ok(()) => assert!(l0 < 4 && v.len() == l0 + 1 && v[l0] == x),
        Err(e) => assert!(l0 == 4 && e == x && v.len() == 4),
    }
    if l0 > 0 {
        assert!(v[0] == first, "push disturbed the prefix");
    }
    // extend_from_slice: all or nothing, capacity checked up front
    let mut w = any_vec::<4>();
    let l1 = w.len();
    let src: [u8; 3] = kani::any();
    let k: usize = kani::any();
    kani::assume(k <= 3);
    let w0 = if l1 > 0 { w[0] } else { 0 };
    match w.extend_from_slice(&src[..k]) {
        Ok(()) => {
            assert!(l1 + k <= 4 && w.len() == l1 + k);
            if k > 0 {
                assert!(w[l1] == src[0]);
            }
        }
        Err(()) => assert!(l1 + k > 4 && w.len() == l1, "a failed extend_from_slice must leave the vector unchanged"),
    }
    if l1 > 0 {
        assert!(w[0] == w0);
    }
    // resize_default
    let mut r = any_vec::<4>();
    let l2 = r.len();
    let r0 = if l2 > 0 { r[0] } else { 0 };
    let nl: usize = kani::any();
    kani::assume(nl <= 6);
    match r.resize_default(nl) {
        Ok(()) => {
            assert!(nl <= 4 && r.len() == nl);
            if nl > 0 && l2 > 0 {
                assert!(r[0] == r0);
            }
            if nl > l2 {
                assert!(r[nl - 1] == 0, "resize_default must fill with zero");
            }
        }
        Err(()) => assert!(nl > 4 && r.len() == l2),
    }
    assert!(r.capacity() == 4);
    // truncate
    let mut t = any_vec::<4>();
    let l3 = t.len();
    let tl: usize = kani::any();
    kani::assume(tl <= 6);
    t.truncate(tl);
    assert!(t.len() == if tl < l3 { tl } else { l3 });
}

/// heapless_bytes::Bytes<4>: push / extend_from_slice as assumed; Deref gives the bytes.
#[kani::proof]
#[kani::unwind(8)]
pub fn dep_k_bytes_contract() {
    let mut b: Bytes<4> = Bytes::new();
    assert!(b.len() == 0);
    let src: [u8; 6] = kani::any();
    let k: usize = kani::any();
    kani::assume(k <= 6);
    match b.extend_from_slice(&src[..k]) {
        Ok(()) => {
            assert!(k <= 4 && b.len() == k);
            let s: &[u8] = &b;
            let j: usize = kani::any();
            kani::assume(j < k);
            assert!(s[j] == src[j]);
        }
        Err(()) => assert!(k > 4 && b.len() == 0),
    }
    let l = b.len();
    let x: u8 = kani::any();
    match b.push(x) {
        Ok(()) => assert!(l < 4 && b.len() == l + 1 && b[l] == x),
        Err(e) => assert!(l == 4 && e == x && b.len() == 4),
    }
}

/// A4: `Bytes<N>` and `String<N>` decode exactly the values of at most N bytes, verbatim, and reject longer ones.
#[kani::proof]
#[kani::unwind(8)]
pub fn dep_k_decode_capacity() {
    let src: [u8; 6] = kani::any();
    let k: usize = kani::any();
    kani::assume(k <= 6);
    let r: Result<Bytes<4>, VErr> = Bytes::<4>::deserialize(BytesDeserializer::new(&src[..k]));
    match r {
        Ok(b) => {
            assert!(k <= 4 && b.len() == k, "A4: byte string beyond the capacity accepted, or shortened");
            let j: usize = kani::any();
            kani::assume(j < k);
            assert!(b[j] == src[j], "A4: accepted byte string altered");
        }
        Err(_) => assert!(k > 4, "A4: byte string within the capacity rejected"),
    }
    let mut txt: [u8; 6] = kani::any();
    let mut i = 0;
    while i < 6 {
        txt[i] &= 0x7f;
        i += 1;
    }
    let s = unsafe { core::str::from_utf8_unchecked(&txt[..k]) };
    let t: Result<String<4>, VErr> = String::<4>::deserialize(BorrowedStrDeserializer::new(s));
    match t {
        Ok(x) => {
            assert!(k <= 4 && x.len() == k, "A4: text beyond the capacity accepted, or shortened");
            let j: usize = kani::any();
            kani::assume(j < k);
            assert!(x.as_bytes()[j] == txt[j], "A4: accepted text altered");
        }
        Err(_) => assert!(k > 4, "A4: text within the capacity rejected"),
    }
}

/// cbor_smol::cbor_serialize as assumed by unit c17: Ok iff the encoding fits the buffer; the returned slice
/// is the start of the buffer.
#[kani::proof]
#[kani::unwind(10)]
pub fn dep_k_cbor_serialize_contract() {
    let v: u32 = kani::any();
    let mut buf = [0u8; 6];
    let n: usize = kani::any();
    kani::assume(n <= 6);
    let enc_len = if v < 24 { 1 } else if v < 0x100 { 2 } else if v < 0x1_0000 { 3 } else { 5 };
    let base = buf.as_ptr();
    match cbor_smol::cbor_serialize(&v, &mut buf[..n]) {
        Ok(out) => {
            assert!(enc_len <= n, "cbor_serialize succeeded although the encoding does not fit");
            assert!(out.len() == enc_len && out.as_ptr() == base, "cbor_serialize must return the start of the buffer");
        }
        Err(_) => assert!(enc_len > n, "cbor_serialize failed although the encoding fits"),
    }
}

/// cbor-smol's length-head reader (`raw_deserialize_u32`, assumed by the Verus unit c06_cbor_skipper as `len_head`):
/// value and header length of a head of the expected major type, minimal encodings only.
fn spec_len_head(s: &[u8], major: u8) -> Option<(u32, usize)> {
    if s.is_empty() || (s[0] >> 5) != major {
        return None;
    }
    let a = s[0] & 0x1f;
    if a <= 23 {
        Some((a as u32, 1))
    } else if a == 24 {
        if s.len() < 2 || s[1] <= 23 { None } else { Some((s[1] as u32, 2)) }
    } else if a == 25 {
        if s.len() < 3 { return None; }
        let v = (s[1] as u32) * 256 + s[2] as u32;
        if v <= 255 { None } else { Some((v, 3)) }
    } else if a == 26 {
        if s.len() < 5 { return None; }
        let v = (s[1] as u32) * 16777216 + (s[2] as u32) * 65536 + (s[3] as u32) * 256 + s[4] as u32;
        if v <= 65535 { None } else { Some((v, 5)) }
    } else {
        None
    }
}

/// validated through the public decoder: every 5-byte input decoded as `u32` (major type 0) gives exactly
/// `len_head`'s value, or an error exactly when `len_head` is None; byte strings (major type 2) of up to 40
/// bytes are delivered from offset `h` with length `v`.
#[kani::proof]
#[kani::unwind(8)]
pub fn dep_k_length_heads() {
    let buf: [u8; 5] = kani::any();
    let r: Result<u32, _> = cbor_smol::cbor_deserialize(&buf);
    match spec_len_head(&buf, 0) {
        Some((v, _h)) => assert!(r == Ok(v), "len_head: value of an unsigned head"),
        None => assert!(r.is_err(), "len_head: a non-minimal / too long / wrong-major head was accepted"),
    }
    let big: [u8; 44] = kani::any();
    let rb: Result<&serde_bytes::Bytes, _> = cbor_smol::cbor_deserialize(&big);
    match spec_len_head(&big, 2) {
        Some((v, h)) => {
            if h + v as usize <= 44 {
                match rb {
                    Ok(b) => {
                        assert!(b.len() == v as usize, "len_head: byte string length");
                        assert!(b.as_ptr() == big[h..].as_ptr(), "len_head: header length");
                    }
                    Err(_) => panic!("len_head: a well-formed byte string was rejected"),
                }
            } else {
                assert!(rb.is_err());
            }
        }
        None => assert!(rb.is_err(), "len_head: malformed length head accepted"),
    }
}

/// A8 / C12, integer ranges on the real decoder: `u8` accepts exactly the minimal unsigned heads 0..=255, `i32` exactly the
/// minimal heads of major type 0 / 1 within the signed 32-bit range, values delivered exactly (nothing wrapped or clamped).
#[kani::proof]
#[kani::unwind(8)]
pub fn dep_k_int_ranges() {
    let b: [u8; 3] = kani::any();
    let r: Result<u8, _> = cbor_smol::cbor_deserialize(&b);
    let a = b[0] & 0x1f;
    if b[0] >> 5 == 0 && a <= 23 {
        assert!(r == Ok(a), "u8: direct value");
    } else if b[0] >> 5 == 0 && a == 24 && b[1] >= 24 {
        assert!(r == Ok(b[1]), "u8: one-byte value");
    } else {
        assert!(r.is_err(), "u8: a value beyond 255, a non-minimal head or another type was accepted");
    }
    let c: [u8; 5] = kani::any();
    let s: Result<i32, _> = cbor_smol::cbor_deserialize(&c);
    let major = c[0] >> 5;
    if major <= 1 {
        match spec_len_head(&c, major) {
            Some((v, _)) => {
                if major == 0 {
                    if v <= i32::MAX as u32 {
                        assert!(s == Ok(v as i32), "i32: unsigned value altered");
                    } else {
                        assert!(s.is_err(), "i32: 2^31 and above must be rejected");
                    }
                } else if v <= i32::MAX as u32 {
                    assert!(s == Ok(-1 - (v as i32)), "i32: negative value altered");
                } else {
                    assert!(s.is_err(), "i32: below -2^31 must be rejected");
                }
            }
            None => assert!(s.is_err(), "i32: malformed head accepted"),
        }
    } else {
        assert!(s.is_err(), "i32: another major type accepted");
    }
}
