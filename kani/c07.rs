//! C07 — authenticator data is laid out byte-for-byte as WebAuthn §6.1 specifies.
//!
//! Contract of `ctap2::AuthenticatorData::<A, E>::serialize` and of
//! `make_credential::AttestedCredentialData::serialize`: the postcondition gives the expected
//! byte at every position (`layout`), checked with one nondeterministic index; on `Err` the
//! error is `Error::Other` and nothing is returned.
use super::cbor_spec::SpecBuf;
use crate::ctap2::{get_assertion, make_credential, AuthenticatorDataFlags, Error};
use crate::Bytes;

/// WebAuthn §6.1: rpIdHash(32) || flags(1) || signCount(4, big endian) || attestedCredentialData || extensions
fn layout(
    k: usize,
    rp: &[u8; 32],
    flags: u8,
    count: u32,
    att: Option<(&[u8], &[u8], &[u8])>,
    ext: &[u8],
) -> u8 {
    if k < 32 {
        return rp[k];
    }
    if k == 32 {
        return flags;
    }
    if k < 37 {
        return (count >> (8 * (36 - k))) as u8;
    }
    let mut k = k - 37;
    if let Some((aaguid, id, key)) = att {
        if k < aaguid.len() {
            return aaguid[k];
        }
        k -= aaguid.len();
        if k == 0 {
            return (id.len() >> 8) as u8;
        }
        if k == 1 {
            return id.len() as u8;
        }
        k -= 2;
        if k < id.len() {
            return id[k];
        }
        k -= id.len();
        if k < key.len() {
            return key[k];
        }
        k -= key.len();
    }
    ext[k]
}

/// flag bit positions (WebAuthn §6.1): UP=0x01 UV=0x04 AT=0x40 ED=0x80
#[kani::proof]
pub fn c07_k_flag_bits() {
    assert!(
        AuthenticatorDataFlags::USER_PRESENCE.bits() == 0x01,
        "C07: UP bit"
    );
    assert!(
        AuthenticatorDataFlags::USER_VERIFIED.bits() == 0x04,
        "C07: UV bit"
    );
    assert!(
        AuthenticatorDataFlags::ATTESTED_CREDENTIAL_DATA.bits() == 0x40,
        "C07: AT bit"
    );
    assert!(
        AuthenticatorDataFlags::EXTENSION_DATA.bits() == 0x80,
        "C07: ED bit"
    );
    let raw: u8 = kani::any();
    let f = AuthenticatorDataFlags::from_bits_truncate(raw);
    assert!(
        f.bits() == raw & 0xC5,
        "C07: flag set does not round-trip its bits"
    );
}

fn any_flags() -> AuthenticatorDataFlags {
    AuthenticatorDataFlags::from_bits_truncate(kani::any())
}

/// GetAssertion flavour, no extensions: every hash, flag set and counter. Complete (loop-free apart
/// from the 32- and 4-byte copies).
#[kani::proof]
#[kani::unwind(34)]
pub fn c07_k_get_assertion_no_extensions() {
    let rp: [u8; 32] = kani::any();
    let flags = any_flags();
    let count: u32 = kani::any();
    let ad = get_assertion::AuthenticatorData {
        rp_id_hash: &rp,
        flags,
        sign_count: count,
        attested_credential_data: if kani::any() {
            Some(get_assertion::NoAttestedCredentialData)
        } else {
            None
        },
        extensions: None,
    };
    let out = ad.serialize();
    match out {
        Ok(bytes) => {
            assert!(bytes.len() == 37, "C07: length of the fixed part");
            let k: usize = kani::any();
            kani::assume(k < 37);
            assert!(
                bytes[k] == layout(k, &rp, flags.bits(), count, None, &[]),
                "C07: fixed part layout"
            );
        }
        Err(_) => panic!("C07: 37 bytes always fit"),
    }
}

/// MakeCredential flavour: attested credential data with symbolic lengths (bounded) and contents.
fn mc_case<const A: usize, const I: usize, const K: usize>() {
    let rp: [u8; 32] = kani::any();
    let flags = any_flags();
    let count: u32 = kani::any();
    let aaguid_buf: [u8; A] = kani::any();
    let id_buf: [u8; I] = kani::any();
    let key_buf: [u8; K] = kani::any();
    let (al, il, kl): (usize, usize, usize) = (kani::any(), kani::any(), kani::any());
    kani::assume(al <= A && il <= I && kl <= K);
    let (aaguid, id, key) = (&aaguid_buf[..al], &id_buf[..il], &key_buf[..kl]);
    let present: bool = kani::any();
    let ad = make_credential::AuthenticatorData {
        rp_id_hash: &rp,
        flags,
        sign_count: count,
        attested_credential_data: if present {
            Some(make_credential::AttestedCredentialData {
                aaguid,
                credential_id: id,
                credential_public_key: key,
            })
        } else {
            None
        },
        extensions: None,
    };
    let out = ad.serialize();
    match out {
        Ok(bytes) => {
            let expect = if present { 37 + al + 2 + il + kl } else { 37 };
            assert!(bytes.len() == expect, "C07: total length");
            let k: usize = kani::any();
            kani::assume(k < expect);
            let att = if present {
                Some((aaguid, id, key))
            } else {
                None
            };
            assert!(
                bytes[k] == layout(k, &rp, flags.bits(), count, att, &[]),
                "C07: attested credential data layout"
            );
        }
        Err(_) => panic!("C07: small data always fits"),
    }
    kani::cover!(present && al == A && il == I && kl == K);
    kani::cover!(!present);
}

#[kani::proof]
#[kani::unwind(34)]
pub fn c07_k_make_credential_small() {
    mc_case::<17, 3, 3>();
}

/// quick-tier variant: aaguid <= 2, credential id <= 2, public key <= 1 byte
#[kani::proof]
#[kani::unwind(34)]
pub fn c07_k_make_credential_tiny() {
    mc_case::<2, 2, 1>();
}

/// Capacity frontier with concrete lengths: total == 676 fits exactly, 677 fails with Error::Other;
/// no shortened data is returned.
fn frontier(id_len: usize, key_len: usize) {
    static ZERO: [u8; 700] = [0; 700];
    let rp: [u8; 32] = kani::any();
    let aaguid: [u8; 16] = kani::any();
    let ad = make_credential::AuthenticatorData {
        rp_id_hash: &rp,
        flags: any_flags(),
        sign_count: kani::any(),
        attested_credential_data: Some(make_credential::AttestedCredentialData {
            aaguid: &aaguid,
            credential_id: &ZERO[..id_len],
            credential_public_key: &ZERO[..key_len],
        }),
        extensions: None,
    };
    let total = 37 + 16 + 2 + id_len + key_len;
    match ad.serialize() {
        Ok(bytes) => {
            assert!(total <= 676, "C07: data beyond the capacity was returned");
            assert!(bytes.len() == total, "C07: shortened data returned");
        }
        Err(e) => {
            assert!(total > 676, "C07: data that fits was refused");
            assert!(e == Error::Other, "C07: wrong error");
        }
    }
}

#[kani::proof]
#[kani::unwind(702)]
pub fn c07_k_capacity_frontier() {
    frontier(544, 77); // 676: fits exactly
    frontier(545, 77); // 677: one too many (in the public key copy)
    frontier(621, 0); // 676
    frontier(622, 0); // 677: one too many (in the credential id copy)
    frontier(0, 622); // 677
}

/// optional parts present iff supplied: an extension map that is supplied is emitted even when it
/// has no member (A0), and is the specification encoding when it has one.
#[kani::proof]
#[kani::unwind(34)]
pub fn c07_k_extensions_present_iff_supplied() {
    let rp: [u8; 32] = kani::any();
    let flags = any_flags();
    let count: u32 = kani::any();
    // GetAssertion flavour, extension outputs supplied but empty
    let ga = get_assertion::AuthenticatorData {
        rp_id_hash: &rp,
        flags,
        sign_count: count,
        attested_credential_data: None,
        extensions: Some(get_assertion::ExtensionsOutput::default()),
    };
    let out = ga.serialize().unwrap();
    assert!(out.len() == 38 && out[37] == 0xA0, "C07: a supplied (empty) extension map must be present");
    // MakeCredential flavour, credProtect supplied: A1 6B "credProtect" <uint>
    let cp: u8 = kani::any();
    kani::assume(cp < 24);
    let mut ext = make_credential::Extensions::default();
    ext.cred_protect = Some(cp);
    let mc = make_credential::AuthenticatorData {
        rp_id_hash: &rp,
        flags,
        sign_count: count,
        attested_credential_data: None,
        extensions: Some(ext),
    };
    let out = mc.serialize().unwrap();
    let mut spec = SpecBuf::<16>::new();
    spec.map(1);
    spec.text(b"credProtect");
    spec.uint(cp as u64);
    assert!(out.len() == 37 + spec.len, "C07: extension map length");
    let k: usize = kani::any();
    kani::assume(k < spec.len);
    assert!(out[37 + k] == spec.buf[k], "C07: extension map is not the CBOR map of the supplied outputs");
    // supplied but empty, MakeCredential flavour
    let mc2 = make_credential::AuthenticatorData {
        rp_id_hash: &rp,
        flags,
        sign_count: count,
        attested_credential_data: None,
        extensions: Some(make_credential::Extensions::default()),
    };
    let out2 = mc2.serialize().unwrap();
    assert!(out2.len() == 38 && out2[37] == 0xA0, "C07: a supplied (empty) extension map must be present");
}
