//! Reference encoder for CTAP2 canonical CBOR (RFC 8949 §3 heads in shortest form), written
//! from the RFC — the *specification side* of the byte-level postconditions. No serde, no
//! cbor-smol: nothing here is shared with the code under verification.

pub struct SpecBuf<const N: usize> {
    pub buf: [u8; N],
    pub len: usize,
}

impl<const N: usize> SpecBuf<N> {
    pub fn new() -> Self {
        SpecBuf {
            buf: [0; N],
            len: 0,
        }
    }
    pub fn push(&mut self, b: u8) {
        self.buf[self.len] = b;
        self.len += 1;
    }
    /// initial byte(s) of a data item: major type and argument in the shortest form
    pub fn head(&mut self, major: u8, v: u64) {
        let m = major << 5;
        if v < 24 {
            self.push(m | v as u8);
        } else if v <= 0xFF {
            self.push(m | 24);
            self.push(v as u8);
        } else if v <= 0xFFFF {
            self.push(m | 25);
            self.push((v >> 8) as u8);
            self.push(v as u8);
        } else if v <= 0xFFFF_FFFF {
            self.push(m | 26);
            self.push((v >> 24) as u8);
            self.push((v >> 16) as u8);
            self.push((v >> 8) as u8);
            self.push(v as u8);
        } else {
            self.push(m | 27);
            let mut s = 56i32;
            while s >= 0 {
                self.push((v >> s) as u8);
                s -= 8;
            }
        }
    }
    pub fn uint(&mut self, v: u64) {
        self.head(0, v)
    }
    pub fn int(&mut self, v: i64) {
        if v >= 0 {
            self.head(0, v as u64)
        } else {
            self.head(1, !(v as u64))
        }
    }
    pub fn bool(&mut self, b: bool) {
        self.push(if b { 0xF5 } else { 0xF4 })
    }
    pub fn map(&mut self, n: u64) {
        self.head(5, n)
    }
    pub fn array(&mut self, n: u64) {
        self.head(4, n)
    }
    pub fn text(&mut self, s: &[u8]) {
        self.head(3, s.len() as u64);
        let mut i = 0;
        while i < s.len() {
            self.push(s[i]);
            i += 1;
        }
    }
    pub fn bytes(&mut self, s: &[u8]) {
        self.head(2, s.len() as u64);
        let mut i = 0;
        while i < s.len() {
            self.push(s[i]);
            i += 1;
        }
    }
}

/// `out == spec[..]`, stated with one nondeterministic index instead of a loop.
pub fn assert_same<const N: usize>(out: &[u8], spec: &SpecBuf<N>, what: &'static str) {
    assert!(out.len() == spec.len, "{}", what);
    let k: usize = kani::any();
    kani::assume(k < spec.len);
    assert!(out[k] == spec.buf[k], "{}", what);
}
