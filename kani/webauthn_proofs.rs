//! Proofs for the private functions of src/webauthn.rs (child module => `super::` reaches them).
#![allow(dead_code, unused_imports)]

#[path = "/verif/.cache/playback/webauthn.rs"]
mod playback;
