//! Proofs for the private functions of src/webauthn.rs (child module => `super::` reaches them).
//!
//! C13 / C04: `is_utf8_char_boundary`, `floor_char_boundary`, `truncate`,
//!            `deserialize_from_str_and_skip_if_too_long`, `Icon::deserialize`
//! C14:       `KnownPublicKeyCredentialParameters::try_from`, the filtering `visit_seq` of
//!            `FilteredPublicKeyCredentialParameters` (through the real CBOR decoder)
//!
//! Modularity: `floor_char_boundary` gets a Kani function contract (on the wrapper
//! `fcb`, because in-place attributes would touch unguarded lines of /repo); it is proved by
//! `#[kani::proof_for_contract]` and *used instead of the body* in the proofs of `truncate`
//! through `#[kani::stub(super::floor_char_boundary, fcb)]` + `#[kani::stub_verified(fcb)]`.
#![allow(dead_code, unused_imports)]
use super::*;
use serde::de::value::{BorrowedStrDeserializer, Error as ValueError};
use serde::Deserialize;

// ------------------------------------------------------------------ specification side
/// "on a character boundary" — the definition, straight from the UTF-8 encoding table: a byte
/// starts a character iff it is not of the form 10xxxxxx.
fn spec_boundary(bytes: &[u8], k: usize) -> bool {
    k == 0 || k == bytes.len() || (k < bytes.len() && (bytes[k] & 0xC0) != 0x80)
}

/// the longest prefix of `bytes` of at most `limit` bytes that ends on a character boundary
fn spec_floor(bytes: &[u8], limit: usize) -> usize {
    let mut k = if limit < bytes.len() {
        limit
    } else {
        bytes.len()
    };
    while k > 0 && !spec_boundary(bytes, k) {
        k -= 1;
    }
    k
}

// ------------------------------------------------------------------ is_utf8_char_boundary
/// Complete: all 256 bytes.
#[kani::proof]
pub fn c13_k_is_utf8_char_boundary() {
    let b: u8 = kani::any();
    assert!(
        is_utf8_char_boundary(b) == (b < 128 || b >= 192),
        "C13: char-boundary predicate"
    );
    assert!(
        is_utf8_char_boundary(b) == ((b & 0xC0) != 0x80),
        "C13: char-boundary predicate (bit form)"
    );
}

// ------------------------------------------------------------------ floor_char_boundary
/// Contract of `floor_char_boundary` (wrapper; see module comment).
/// pre:  `s` is a `&str` (valid UTF-8 is the type invariant of str)
/// post: result <= index, result <= len, on a boundary, and maximal among such positions.
#[kani::requires(core::str::from_utf8(s.as_bytes()).is_ok())]
#[kani::ensures(|r: &usize| *r == spec_floor(s.as_bytes(), index))]
pub fn fcb(s: &str, index: usize) -> usize {
    floor_char_boundary(s, index)
}

const FCB_N: usize = 5;

/// Exact precondition (real `from_utf8` validity), every string of at most 5 bytes (quick tier; 8 bytes in the thorough tier) — which contains
/// every arrangement of 1/2/3/4-byte characters around a cut — and every index.
/// Checks: no UB at `unwrap_unchecked`, no out-of-bounds slice, and the contract.
#[kani::proof_for_contract(fcb)]
#[kani::unwind(10)]
pub fn c13_k_floor_char_boundary_contract() {
    fcb_case::<FCB_N>();
}

/// the same contract for every string of at most 8 bytes (thorough tier)
#[kani::proof_for_contract(fcb)]
#[kani::unwind(10)]
pub fn c13_k_floor_char_boundary_contract_8() {
    fcb_case::<8>();
}

fn fcb_case<const N: usize>() {
    let buf: [u8; N] = kani::any();
    let n: usize = kani::any();
    kani::assume(n <= N);
    if let Ok(s) = core::str::from_utf8(&buf[..n]) {
        let index: usize = kani::any();
        let r = fcb(s, index);
        kani::cover!(r < index && index < n);
        kani::cover!(index >= 3 && r == index - 3);
    }
}

/// Window variant (weaker precondition => stronger contract; see DESIGN §5 C04): a 300-byte
/// symbolic array viewed as `&str` without validation; required only: one of the <= 4 bytes
/// s[index-3..=index] is not a continuation byte (implied by validity, A12).  Covers every
/// character-width pattern at every alignment for total lengths 0..=300.
#[kani::proof]
#[kani::unwind(6)]
pub fn c13_k_floor_char_boundary_window() {
    let buf: [u8; 300] = kani::any();
    let n: usize = kani::any();
    kani::assume(n <= 300);
    let bytes = &buf[..n];
    let index: usize = kani::any();
    if index < n {
        let lo = index.saturating_sub(3);
        let mut ok = false;
        let mut k = lo;
        while k <= index {
            ok = ok || (bytes[k] & 0xC0) != 0x80;
            k += 1;
        }
        kani::assume(ok);
    }
    // SAFETY (harness): floor_char_boundary only reads bytes; validity is replaced by the window assumption
    let s = unsafe { core::str::from_utf8_unchecked(bytes) };
    let r = floor_char_boundary(s, index);
    if index >= n {
        assert!(r == n, "C13: index beyond the end");
    } else {
        assert!(r <= index, "C13: floor above the index");
        assert!((bytes[r] & 0xC0) != 0x80, "C13: floor not on a boundary");
        let j: usize = kani::any();
        kani::assume(r < j && j <= index);
        assert!((bytes[j] & 0xC0) == 0x80, "C13: floor not maximal");
    }
}

// ------------------------------------------------------------------ truncate
/// Contract of `truncate::<L>` against the *contract* of `floor_char_boundary` (not its body):
/// the result is exactly the longest prefix of at most L bytes ending on a character boundary,
/// it is the text itself when it fits, `push_str` cannot fail and the slice cannot panic.
fn truncate_case<const L: usize>() {
    let buf: [u8; FCB_N] = kani::any();
    let n: usize = kani::any();
    kani::assume(n <= FCB_N);
    if let Ok(s) = core::str::from_utf8(&buf[..n]) {
        let t: String<L> = truncate::<L>(s);
        let want = spec_floor(s.as_bytes(), L);
        assert!(
            t.len() == want,
            "C13: truncated length is not the longest boundary prefix"
        );
        assert!(t.len() <= L, "C13: longer than the capacity");
        if n <= L {
            assert!(t.len() == n, "C13: a text that fits was shortened");
        }
        let k: usize = kani::any();
        if k < want {
            assert!(
                t.as_bytes()[k] == s.as_bytes()[k],
                "C13: truncation altered the text"
            );
        }
        kani::cover!(want < n && want < L);
    }
}

/// The contract of `floor_char_boundary` as an abstraction: what `stub_verified` would generate
/// (check the precondition, return any value satisfying the postcondition).  Kani 0.68 cannot chain
/// `stub(floor_char_boundary -> fcb)` with `stub_verified(fcb)` (it reports a recursion), so the
/// replacement is written out; it is sound because `c13_k_floor_char_boundary_contract` proves that
/// the real body satisfies exactly this postcondition.
pub fn fcb_by_contract(s: &str, index: usize) -> usize {
    let r: usize = kani::any();
    kani::assume(r == spec_floor(s.as_bytes(), index));
    r
}

#[kani::proof]
#[kani::stub(floor_char_boundary, fcb_by_contract)]
#[kani::unwind(10)]
pub fn c13_k_truncate_uses_contract_l3() {
    truncate_case::<3>();
}

#[kani::proof]
#[kani::stub(floor_char_boundary, fcb_by_contract)]
#[kani::unwind(10)]
pub fn c13_k_truncate_uses_contract_l1_l2_l4() {
    truncate_case::<1>();
    truncate_case::<2>();
    truncate_case::<4>();
}

/// The real instantiation `truncate::<64>` on texts up to 300 bytes (window precondition around the
/// cut at 64, bytes otherwise arbitrary): exact result length and content, `unwrap()` never fires.
#[kani::proof]
#[kani::unwind(66)]
pub fn c13_k_truncate_64_window() {
    let buf: [u8; 300] = kani::any();
    let n: usize = kani::any();
    kani::assume(n <= 300);
    let bytes = &buf[..n];
    if n > 64 {
        kani::assume(
            (bytes[61] & 0xC0) != 0x80
                || (bytes[62] & 0xC0) != 0x80
                || (bytes[63] & 0xC0) != 0x80
                || (bytes[64] & 0xC0) != 0x80,
        );
    }
    let s = unsafe { core::str::from_utf8_unchecked(bytes) };
    let t: String<64> = truncate::<64>(s);
    let want = spec_floor(bytes, 64);
    assert!(
        t.len() == want,
        "C13: truncated length is not the longest boundary prefix"
    );
    assert!(t.len() <= 64);
    let k: usize = kani::any();
    if k < want {
        assert!(
            t.as_bytes()[k] == bytes[k],
            "C13: truncation altered the text"
        );
    }
    kani::cover!(n > 64 && want == 61);
    kani::cover!(n > 64 && want == 64);
    kani::cover!(n == 64);
}

// ------------------------------------------------------------------ icons
fn ascii<const N: usize>(buf: &mut [u8; N]) {
    let mut i = 0;
    while i < N {
        buf[i] &= 0x7f;
        i += 1;
    }
}

/// `deserialize_from_str_and_skip_if_too_long::<_, 128>`: a text of at most 128 bytes is kept
/// verbatim, a longer one is reported absent, never an error, never a panic (String::try_from is
/// fallible).  Text lengths 0..=300 (ASCII content, symbolic).
#[kani::proof]
#[kani::stub(core::str::count::count_chars, count_chars_reference)]
#[kani::unwind(302)]
pub fn c13_k_user_icon_keep_or_drop() {
    let mut buf: [u8; 300] = kani::any();
    ascii(&mut buf);
    let n: usize = kani::any();
    kani::assume(n <= 300);
    let s = unsafe { core::str::from_utf8_unchecked(&buf[..n]) };
    let d = BorrowedStrDeserializer::<ValueError>::new(s);
    let r: Result<Option<String<128>>, ValueError> =
        deserialize_from_str_and_skip_if_too_long::<_, 128>(d);
    match r {
        Ok(Some(kept)) => {
            assert!(n <= 128, "C13: an over-long icon was kept");
            assert!(kept.len() == n, "C13: icon shortened");
            let k: usize = kani::any();
            kani::assume(k < n);
            assert!(kept.as_bytes()[k] == buf[k], "C13: icon altered");
        }
        Ok(None) => assert!(n > 128, "C13: an icon that fits was dropped"),
        Err(_) => panic!("C13: icon made the request fail"),
    }
    kani::cover!(n == 128);
    kani::cover!(n == 129);
    kani::cover!(n == 300);
}

/// The same contract on NON-ASCII text: the limit is in *bytes*, not characters.  The text is k
/// two-byte characters (U+00E9) followed by at most one ASCII byte, 0..=300 bytes in all; at most
/// 128 bytes => kept verbatim, more => absent; never an error, never a panic.
#[kani::proof]
#[kani::stub(core::str::count::count_chars, count_chars_reference)]
#[kani::unwind(302)]
pub fn c13_k_user_icon_multibyte_keep_or_drop() {
    let mut buf = [0u8; 300];
    let mut i = 0;
    while i < 300 {
        buf[i] = if i % 2 == 0 { 0xC3 } else { 0xA9 };
        i += 1;
    }
    let k: usize = kani::any();
    kani::assume(k <= 149);
    let tail: bool = kani::any();
    let n = 2 * k + if tail { 1 } else { 0 };
    if tail {
        buf[2 * k] = b'x';
    }
    let s = unsafe { core::str::from_utf8_unchecked(&buf[..n]) };
    let d = BorrowedStrDeserializer::<ValueError>::new(s);
    let r: Result<Option<String<128>>, ValueError> =
        deserialize_from_str_and_skip_if_too_long::<_, 128>(d);
    match r {
        Ok(Some(kept)) => {
            assert!(n <= 128, "C13: an over-long icon was kept");
            assert!(kept.len() == n, "C13: icon shortened");
            let j: usize = kani::any();
            kani::assume(j < n);
            assert!(kept.as_bytes()[j] == buf[j], "C13: icon altered");
        }
        Ok(None) => assert!(n > 128, "C13: an icon that fits was dropped"),
        Err(_) => panic!("C13: icon made the request fail"),
    }
    kani::cover!(n == 128);
    kani::cover!(n == 129);
    kani::cover!(n == 130);
}

/// The helper is generic in the capacity: small capacities L with ANY valid UTF-8 text of up to 5 bytes (one to
/// four-byte characters, symbolic): kept verbatim iff it has at most L BYTES, absent otherwise, never an error / panic.
fn icon_case<const L: usize>() {
    let buf: [u8; FCB_N] = kani::any();
    let n: usize = kani::any();
    kani::assume(n <= FCB_N);
    if let Ok(s) = core::str::from_utf8(&buf[..n]) {
        let d = BorrowedStrDeserializer::<ValueError>::new(s);
        let r: Result<Option<String<L>>, ValueError> = deserialize_from_str_and_skip_if_too_long::<_, L>(d);
        match r {
            Ok(Some(kept)) => {
                assert!(n <= L, "C13: an over-long icon was kept");
                assert!(kept.len() == n, "C13: icon shortened");
                let j: usize = kani::any();
                if j < n {
                    assert!(kept.as_bytes()[j] == buf[j], "C13: icon altered");
                }
            }
            Ok(None) => assert!(n > L, "C13: an icon that fits was dropped"),
            Err(_) => panic!("C13: icon made the request fail"),
        }
        kani::cover!(n == L);
        kani::cover!(n == L + 1 && buf[0] >= 0xC0);
    }
}

/// reference implementation of core's private `str::count::count_chars` (the number of bytes that are not
/// continuation bytes); core's word-at-a-time version is intractable for CBMC, so a harness that may reach it
/// (only if the code under test starts counting characters) uses this one instead
pub fn count_chars_reference(s: &str) -> usize {
    let b = s.as_bytes();
    let mut n = 0;
    let mut i = 0;
    while i < b.len() {
        if (b[i] & 0xC0) != 0x80 {
            n += 1;
        }
        i += 1;
    }
    n
}

#[kani::proof]
#[kani::stub(core::str::count::count_chars, count_chars_reference)]
#[kani::unwind(10)]
pub fn c13_k_user_icon_small_capacities() {
    icon_case::<2>();
    icon_case::<3>();
    icon_case::<4>();
}

// ------------------------------------------------------------------ names (optional, truncated)
/// A deserializer holding an optional text: `deserialize_option` reports it as `visit_some(text)` /
/// `visit_none()`, which is what every self-describing decoder does for an optional member.
struct OptText<'de>(Option<&'de str>);

impl<'de> serde::Deserializer<'de> for OptText<'de> {
    type Error = ValueError;
    fn deserialize_any<V: serde::de::Visitor<'de>>(self, v: V) -> Result<V::Value, ValueError> {
        match self.0 {
            Some(s) => v.visit_borrowed_str(s),
            None => v.visit_none(),
        }
    }
    fn deserialize_option<V: serde::de::Visitor<'de>>(self, v: V) -> Result<V::Value, ValueError> {
        match self.0 {
            Some(s) => v.visit_some(BorrowedStrDeserializer::<ValueError>::new(s)),
            None => v.visit_none(),
        }
    }
    serde::forward_to_deserialize_any! {
        bool i8 i16 i32 i64 i128 u8 u16 u32 u64 u128 f32 f64 char str string bytes byte_buf unit
        unit_struct newtype_struct seq tuple tuple_struct map struct enum identifier ignored_any
    }
}

/// `deserialize_from_str_and_truncate::<_, 64>` (rp.name, user.name, user.displayName): an absent
/// name stays absent; a present name stays PRESENT — the empty text included, which the encoder
/// emits as a zero-length text string (C15: absent and empty are different encodings) — and is the
/// text itself when it fits, its first 64 bytes otherwise (ASCII content, 0..=70 bytes).
#[kani::proof]
#[kani::unwind(72)]
pub fn c15_k_name_present_stays_present() {
    let mut buf: [u8; 70] = kani::any();
    ascii(&mut buf);
    let n: usize = kani::any();
    kani::assume(n <= 70);
    let present: bool = kani::any();
    let s = unsafe { core::str::from_utf8_unchecked(&buf[..n]) };
    let d = OptText(if present { Some(s) } else { None });
    let r: Result<Option<String<64>>, ValueError> = deserialize_from_str_and_truncate::<_, 64>(d);
    match r {
        Ok(Some(t)) => {
            assert!(present, "C15: an absent name was decoded as present");
            let want = if n <= 64 { n } else { 64 };
            assert!(t.len() == want, "C13/C15: name length");
            let j: usize = kani::any();
            if j < want {
                assert!(t.as_bytes()[j] == buf[j], "C13: name altered");
            }
        }
        Ok(None) => assert!(!present, "C15: a present name (possibly empty) was decoded as absent"),
        Err(_) => panic!("C13: a text name made the request fail"),
    }
    kani::cover!(present && n == 0);
    kani::cover!(present && n == 70);
    kani::cover!(!present);
}

/// A relying-party icon (or legacy url) of any length is accepted and discarded.
#[kani::proof]
#[kani::unwind(302)]
pub fn c13_k_rp_icon_discarded() {
    let mut buf: [u8; 300] = kani::any();
    ascii(&mut buf);
    let n: usize = kani::any();
    kani::assume(n <= 300);
    let s = unsafe { core::str::from_utf8_unchecked(&buf[..n]) };
    let d = BorrowedStrDeserializer::<ValueError>::new(s);
    let r: Result<Icon, ValueError> = Icon::deserialize(d);
    assert!(r.is_ok(), "C13: rp icon rejected");
}

/// ... and anything that is not a text string is rejected (wrong CBOR type => error, C05).
#[kani::proof]
pub fn c13_k_rp_icon_must_be_text() {
    use serde::de::value::{BoolDeserializer, BytesDeserializer, U32Deserializer, UnitDeserializer};
    let v: u32 = kani::any();
    assert!(Icon::deserialize(U32Deserializer::<ValueError>::new(v)).is_err(), "C13/C05: integer accepted as rp icon");
    let b: bool = kani::any();
    assert!(Icon::deserialize(BoolDeserializer::<ValueError>::new(b)).is_err(), "C13/C05: bool accepted as rp icon");
    let raw: [u8; 3] = kani::any();
    assert!(Icon::deserialize(BytesDeserializer::<ValueError>::new(&raw)).is_err(), "C13/C05: byte string accepted as rp icon");
    assert!(Icon::deserialize(UnitDeserializer::<ValueError>::new()).is_err(), "C13/C05: null accepted as rp icon");
}

// ------------------------------------------------------------------ C14: known parameters
/// Contract of `TryFrom<PublicKeyCredentialParameters> for KnownPublicKeyCredentialParameters`:
/// Ok{alg} <=> type == "public-key" and alg in {-7, -8}; every i32; type strings up to 12 bytes.
#[kani::proof]
#[kani::unwind(14)]
pub fn c14_k_known_parameters() {
    assert!(ES256 == -7 && ED_DSA == -8, "C14: algorithm identifiers");
    assert!(
        KNOWN_ALGS.len() == 2 && KNOWN_ALGS[0] == -7 && KNOWN_ALGS[1] == -8,
        "C14: known algorithms"
    );
    let alg: i32 = kani::any();
    let mut key_type: String<32> = String::new();
    let n: usize = kani::any();
    kani::assume(n <= 12);
    let mut raw = [0u8; 12];
    let mut i = 0;
    while i < n {
        let c: u8 = kani::any();
        kani::assume(c < 0x80);
        raw[i] = c;
        key_type.push(c as char).unwrap();
        i += 1;
    }
    let pk = b"public-key";
    let mut is_pk = n == pk.len();
    let mut j = 0;
    while j < pk.len() {
        is_pk = is_pk && j < n && raw[j] == pk[j];
        j += 1;
    }
    let p = PublicKeyCredentialParameters { alg, key_type };
    match KnownPublicKeyCredentialParameters::try_from(p) {
        Ok(k) => {
            assert!(is_pk, "C14: unknown type accepted");
            assert!(alg == -7 || alg == -8, "C14: unknown algorithm accepted");
            assert!(k.alg == alg, "C14: algorithm altered");
        }
        Err(UnknownPKCredentialParam::UnknownType) => {
            assert!(!is_pk, "C14: public-key rejected as unknown type")
        }
        Err(UnknownPKCredentialParam::UnknownAlg) => {
            assert!(
                is_pk && alg != -7 && alg != -8,
                "C14: known algorithm rejected"
            )
        }
    }
    kani::cover!(is_pk && alg == -8);
    kani::cover!(!is_pk && n == 10);
}

/// One list element `{"alg": <neg int -1..-24>, "type": "public-ke?"}` (19 bytes) with two symbolic leaves.
fn put_param(out: &mut [u8], at: usize, alg_byte: u8, last: u8) {
    let tpl: [u8; 19] = [
        0xA2, 0x63, b'a', b'l', b'g', 0x20, 0x64, b't', b'y', b'p', b'e', 0x6A, b'p', b'u', b'b',
        b'l', b'i', b'c', b'-',
    ];
    let mut i = 0;
    while i < 19 {
        out[at + i] = tpl[i];
        i += 1;
    }
    out[at + 5] = 0x20 | alg_byte; // negative integer -1 - alg_byte
    out[at + 19] = b'k';
    out[at + 20] = b'e';
    out[at + 21] = last;
}

/// `FilteredPublicKeyCredentialParameters::serialize` (hand-written): a definite-length array of
/// {"alg": n, "type": "public-key"} maps in order (C02 / C03).
#[kani::proof]
#[kani::unwind(24)]
pub fn c02_k_filtered_params_serialize() {
    let n: usize = kani::any();
    kani::assume(n <= 2);
    let mut v: heapless::Vec<KnownPublicKeyCredentialParameters, COUNT_KNOWN_ALGS> =
        heapless::Vec::new();
    let a0: u8 = kani::any();
    let a1: u8 = kani::any();
    kani::assume(a0 < 24 && a1 < 24);
    if n > 0 {
        v.push(KnownPublicKeyCredentialParameters {
            alg: -1 - a0 as i32,
        })
        .ok();
    }
    if n > 1 {
        v.push(KnownPublicKeyCredentialParameters {
            alg: -1 - a1 as i32,
        })
        .ok();
    }
    let f = FilteredPublicKeyCredentialParameters(v);
    let mut buf = [0u8; 64];
    let out = cbor_smol::cbor_serialize(&f, &mut buf).unwrap();
    let mut want = [0u8; 64];
    want[0] = 0x80 | n as u8;
    if n > 0 {
        put_param(&mut want, 1, a0, b'y');
    }
    if n > 1 {
        put_param(&mut want, 23, a1, b'y');
    }
    assert!(out.len() == 1 + 22 * n, "C02: algorithms array length");
    let k: usize = kani::any();
    kani::assume(k < 1 + 22 * n);
    assert!(out[k] == want[k], "C02/C03: algorithms array bytes");
}

#[path = "/verif/.cache/playback/webauthn.rs"]
mod playback;
