#!/bin/bash
# usage: process_seed3.sh <PROP> [features]  — takes /tmp/sa3_<PROP>/{patch.diff,tests/seed_demo.rs,note.txt}, stores it as the next
# seeded/<PROP>-n, confirms it (tools/confirm_seed.sh) and runs the property's quick check against it (tools/run_seeded.sh).
set -u
P=$1; FEAT="${2:-}"
n=1; while [ -d /verif/seeded/$P-$n ]; do n=$((n+1)); done
D=/verif/seeded/$P-$n; mkdir -p $D
cp /tmp/sa3_$P/patch.diff $D/patch.diff; cp /tmp/sa3_$P/tests/seed_demo.rs $D/demo.rs; cp /tmp/sa3_$P/note.txt $D/note.txt
res=$(/verif/tools/confirm_seed.sh $D/patch.diff $D/demo.rs $FEAT | grep RESULT)
echo "$P-$n $res"
python3 - "$P" "$n" "$res" "$FEAT" <<'PY'
import json,sys
P,n,res,feat=sys.argv[1:5]
D='/verif/seeded/%s-%s'%(P,n)
ok='baseline_with_change(pass/fail)=36/0' in res and 'demo_passes_unchanged=1' in res and 'demo_fails_with_change=1' in res
json.dump({'id':'%s-%s'%(P,n),'breaks_property':P,'round':'3',
 'source':'independent sub-agent given only the property text and a scratch worktree',
 'needs_to_manifest':open(D+'/note.txt').read(),
 'confirmed':{'how':'tools/confirm_seed.sh in a scratch git worktree of /repo HEAD'+(' (--features %s)'%feat if feat else ''),'result_line':res,'ok':ok},
 'detected_by':'see result.txt and DESIGN.md section 11'},open(D+'/meta.json','w'),indent=1)
PY
/verif/tools/run_seeded.sh $P-$n
