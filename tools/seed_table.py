#!/usr/bin/env python3
"""Markdown table of the seeded changes and what detected them (from seeded/*/result.txt)."""
import glob, json, os, re
rows = []
for d in sorted(glob.glob('/verif/seeded/C*-*')):
    meta = json.load(open(d + '/meta.json'))
    res = open(d + '/result.txt').read() if os.path.exists(d + '/result.txt') else ''
    m = re.search(r'exit (\d)', res)
    rc = m.group(1) if m else '?'
    names = []
    for line in res.split('\n'):
        mm = re.search(r'replay=/verif/replays/[A-Z0-9]+-(\S+?)\.txt', line)
        if mm and line.startswith('VIOLATION'):
            names.append(mm.group(1) + ('' if 'no-failing-input-found' in line else ' (counterexample replayed)'))
    note = open(d + '/note.txt').read().strip().split('\n')[0][:110].replace('|', '\\|')
    rows.append((meta['id'], meta['breaks_property'], note, rc, '; '.join(names[:3]) + (' …' if len(names) > 3 else '')))
print('| seed | breaks | change (first line of the author\'s note) | check exit | failed obligations |')
print('|---|---|---|---|---|')
for r in rows:
    print('| %s | %s | %s | %s | %s |' % r)
