#!/usr/bin/env python3
"""Regenerate MANIFEST.json from lib/registry.py and lib/manifest_texts.py."""
import json, os, sys
HERE = os.path.dirname(os.path.dirname(os.path.abspath(__file__)))
sys.path.insert(0, os.path.join(HERE, 'lib'))
import registry
import manifest_texts as T

all_ids = ['C%02d' % i for i in range(1, 20)]
checks = []
for pid in all_ids:
    if pid not in registry.PROPS or pid in T.NOT_APPLICABLE:
        continue
    t = T.CHECKS[pid]
    checks.append({
        'property_id': pid,
        'quick_cmd': './check %s --tier quick' % pid,
        'thorough_cmd': './check %s --tier thorough' % pid,
        'evidence_file': '/verif/evidence/%s.json' % pid,
        'replay_cmd_template': './check %s --replay {path}' % pid,
        'engine': t['engine'],
        'level_claimed': {'category': registry.PROPS[pid].get('level', 'proof'), 'text': t['text'], 'design_ref': t['design_ref']},
        'level_note': t['note'],
        'technique': t['technique'],
    })
na = [{'property_id': p, 'reason': r} for p, r in T.NOT_APPLICABLE.items()]
for pid in all_ids:
    if pid not in registry.PROPS and pid not in T.NOT_APPLICABLE:
        na.append({'property_id': pid, 'reason': 'not yet claimed: the check for this property has not been built in this tree'})
m = {
    'version': 1,
    'setup_cmd': './setup.sh',
    'hooks': {
        'guard': 'kani',
        'enable': 'cargo kani (sets --cfg kani); the guarded lines only declare `#[cfg(kani)] #[path = "/verif/kani/..."] mod verif_proofs;`',
        'baseline_off_cmd': 'cd /repo && cargo test --workspace --no-fail-fast --offline',
        'source_commits': T.HOOK_COMMITS,
        'add_only': True,
    },
    'engines': T.ENGINES,
    'checks': checks,
    'notes': T.NOTES,
    'not_applicable': na,
}
json.dump(m, open(os.path.join(HERE, 'MANIFEST.json'), 'w'), indent=1)
print('MANIFEST.json: %d checks, %d not_applicable' % (len(checks), len(na)))
