#!/bin/bash
# Runs every seeded change against the check of the property it breaks (quick tier), sequentially.
cd /verif
for d in seeded/C*-*; do
  id=$(basename $d)
  [ -n "${ONLY:-}" ] && [[ ! " $ONLY " =~ " $id " ]] && continue
  echo "=== $id"; tools/run_seeded.sh $id 2>&1 | grep -E "exit|VIOLATION|KNOWN|UNDECIDED" | cut -c1-220
done
