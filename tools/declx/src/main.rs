//! declx — dump the declarations of a Rust source tree as JSON.
//!
//! For every struct / enum / const / impl header in the given files: name, attributes (as token
//! text), fields / variants with their attributes and types.  No interpretation happens here;
//! /verif/lib/decl_engine.py evaluates cfg, serde and serde_indexed attributes.
use quote::ToTokens;
use std::fmt::Write as _;

fn esc(s: &str) -> String {
    let mut o = String::with_capacity(s.len() + 2);
    o.push('"');
    for c in s.chars() {
        match c {
            '"' => o.push_str("\\\""),
            '\\' => o.push_str("\\\\"),
            '\n' => o.push_str("\\n"),
            '\t' => o.push_str("\\t"),
            c if (c as u32) < 0x20 => {
                let _ = write!(o, "\\u{:04x}", c as u32);
            }
            c => o.push(c),
        }
    }
    o.push('"');
    o
}

fn toks<T: ToTokens>(t: &T) -> String {
    t.to_token_stream().to_string()
}

fn attrs_json(attrs: &[syn::Attribute]) -> String {
    let mut v = Vec::new();
    for a in attrs {
        if a.path().is_ident("doc") {
            continue;
        }
        let path = toks(a.path());
        let args = match &a.meta {
            syn::Meta::Path(_) => String::new(),
            syn::Meta::List(l) => l.tokens.to_string(),
            syn::Meta::NameValue(nv) => toks(&nv.value),
        };
        v.push(format!("{{\"path\":{},\"args\":{}}}", esc(&path), esc(&args)));
    }
    format!("[{}]", v.join(","))
}

fn fields_json(fields: &syn::Fields) -> String {
    let mut v = Vec::new();
    for (i, f) in fields.iter().enumerate() {
        let name = f.ident.as_ref().map(|x| x.to_string()).unwrap_or_else(|| i.to_string());
        let vis = toks(&f.vis);
        v.push(format!(
            "{{\"name\":{},\"pos\":{},\"ty\":{},\"vis\":{},\"attrs\":{}}}",
            esc(&name),
            i,
            esc(&toks(&f.ty)),
            esc(&vis),
            attrs_json(&f.attrs)
        ));
    }
    format!("[{}]", v.join(","))
}

fn walk(items: &[syn::Item], file: &str, module: &str, out: &mut Vec<String>) {
    for it in items {
        match it {
            syn::Item::Struct(s) => {
                out.push(format!(
                    "{{\"kind\":\"struct\",\"file\":{},\"module\":{},\"name\":{},\"generics\":{},\"attrs\":{},\"tuple\":{},\"unit\":{},\"fields\":{}}}",
                    esc(file), esc(module), esc(&s.ident.to_string()), esc(&toks(&s.generics)), attrs_json(&s.attrs),
                    matches!(s.fields, syn::Fields::Unnamed(_)), matches!(s.fields, syn::Fields::Unit), fields_json(&s.fields)
                ));
            }
            syn::Item::Enum(e) => {
                let mut vs = Vec::new();
                for (i, v) in e.variants.iter().enumerate() {
                    let disc = v.discriminant.as_ref().map(|(_, e)| toks(e)).unwrap_or_default();
                    vs.push(format!(
                        "{{\"name\":{},\"pos\":{},\"discriminant\":{},\"attrs\":{},\"fields\":{}}}",
                        esc(&v.ident.to_string()), i, esc(&disc), attrs_json(&v.attrs), fields_json(&v.fields)
                    ));
                }
                out.push(format!(
                    "{{\"kind\":\"enum\",\"file\":{},\"module\":{},\"name\":{},\"generics\":{},\"attrs\":{},\"variants\":[{}]}}",
                    esc(file), esc(module), esc(&e.ident.to_string()), esc(&toks(&e.generics)), attrs_json(&e.attrs), vs.join(",")
                ));
            }
            syn::Item::Const(c) => {
                // `const _: () = { impl .. };` wrappers produced by serde_derive: walk the items inside
                if let syn::Expr::Block(b) = &*c.expr {
                    let inner: Vec<syn::Item> = b
                        .block
                        .stmts
                        .iter()
                        .filter_map(|st| if let syn::Stmt::Item(i) = st { Some(i.clone()) } else { None })
                        .collect();
                    if !inner.is_empty() {
                        walk(&inner, file, module, out);
                    }
                }
                out.push(format!(
                    "{{\"kind\":\"const\",\"file\":{},\"module\":{},\"name\":{},\"ty\":{},\"value\":{},\"attrs\":{}}}",
                    esc(file), esc(module), esc(&c.ident.to_string()), esc(&toks(&c.ty)), esc(&toks(&c.expr)), attrs_json(&c.attrs)
                ));
            }
            syn::Item::Type(t) => {
                out.push(format!(
                    "{{\"kind\":\"type\",\"file\":{},\"module\":{},\"name\":{},\"generics\":{},\"ty\":{},\"attrs\":{}}}",
                    esc(file), esc(module), esc(&t.ident.to_string()), esc(&toks(&t.generics)), esc(&toks(&t.ty)), attrs_json(&t.attrs)
                ));
            }
            syn::Item::Impl(im) => {
                let tr = im.trait_.as_ref().map(|(_, p, _)| toks(p)).unwrap_or_default();
                let mut consts = Vec::new();
                let mut fns = Vec::new();
                for ii in &im.items {
                    match ii {
                        syn::ImplItem::Const(c) => consts.push(format!(
                            "{{\"name\":{},\"ty\":{},\"value\":{},\"attrs\":{}}}",
                            esc(&c.ident.to_string()), esc(&toks(&c.ty)), esc(&toks(&c.expr)), attrs_json(&c.attrs)
                        )),
                        syn::ImplItem::Fn(f) => fns.push(format!(
                            "{{\"name\":{},\"body\":{}}}",
                            esc(&f.sig.ident.to_string()), esc(&toks(&f.block))
                        )),
                        _ => {}
                    }
                }
                out.push(format!(
                    "{{\"kind\":\"impl\",\"file\":{},\"module\":{},\"trait\":{},\"self_ty\":{},\"attrs\":{},\"consts\":[{}],\"fns\":[{}]}}",
                    esc(file), esc(module), esc(&tr), esc(&toks(&im.self_ty)), attrs_json(&im.attrs), consts.join(","), fns.join(",")
                ));
            }
            syn::Item::Fn(f) => {
                out.push(format!(
                    "{{\"kind\":\"fn\",\"file\":{},\"module\":{},\"name\":{},\"sig\":{},\"attrs\":{},\"body\":{}}}",
                    esc(file), esc(module), esc(&f.sig.ident.to_string()), esc(&toks(&f.sig)), attrs_json(&f.attrs), esc(&toks(&f.block))
                ));
            }
            syn::Item::Trait(t) => {
                let mut fns = Vec::new();
                for ti in &t.items {
                    if let syn::TraitItem::Fn(f) = ti {
                        let body = f.default.as_ref().map(|b| toks(b)).unwrap_or_default();
                        fns.push(format!("{{\"name\":{},\"body\":{}}}", esc(&f.sig.ident.to_string()), esc(&body)));
                    }
                }
                out.push(format!(
                    "{{\"kind\":\"trait\",\"file\":{},\"module\":{},\"name\":{},\"attrs\":{},\"fns\":[{}]}}",
                    esc(file), esc(module), esc(&t.ident.to_string()), attrs_json(&t.attrs), fns.join(",")
                ));
            }
            syn::Item::Mod(m) => {
                if let Some((_, items)) = &m.content {
                    // skip unit tests
                    let is_test = m.attrs.iter().any(|a| a.path().is_ident("cfg") && toks(&a.meta).contains("test"));
                    if !is_test {
                        let sub = format!("{}::{}", module, m.ident);
                        walk(items, file, &sub, out);
                    }
                }
            }
            syn::Item::Macro(m) => {
                // bitflags! { ... } : keep the token text so the consumer can read the constants
                let name = toks(&m.mac.path);
                if name == "bitflags" {
                    out.push(format!(
                        "{{\"kind\":\"macro\",\"file\":{},\"module\":{},\"name\":{},\"tokens\":{}}}",
                        esc(file), esc(module), esc(&name), esc(&m.mac.tokens.to_string())
                    ));
                }
            }
            _ => {}
        }
    }
}

fn main() {
    let args: Vec<String> = std::env::args().skip(1).collect();
    let root = &args[0];
    let mut out = Vec::new();
    for rel in &args[1..] {
        let path = format!("{}/{}", root, rel);
        let src = match std::fs::read_to_string(&path) {
            Ok(s) => s,
            Err(e) => {
                eprintln!("declx: cannot read {}: {}", path, e);
                std::process::exit(3);
            }
        };
        let file = match syn::parse_file(&src) {
            Ok(f) => f,
            Err(e) => {
                eprintln!("declx: cannot parse {}: {}", path, e);
                std::process::exit(4);
            }
        };
        // module path from the file path: src/ctap2/get_info.rs -> ctap2::get_info
        let module = rel.trim_start_matches("src/").trim_end_matches(".rs").replace('/', "::");
        let module = if module == "lib" { String::new() } else { module };
        walk(&file.items, rel, &module, &mut out);
    }
    println!("[\n{}\n]", out.join(",\n"));
}
