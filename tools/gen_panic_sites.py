#!/usr/bin/env python3
"""(Re)generate /verif/spec/panic_sites.json from the current tree, keeping the hand-written
`covered_by` annotations.  Run by hand when the inventory is reviewed — never by a check."""
import json, os, sys
HERE = os.path.dirname(os.path.dirname(os.path.abspath(__file__)))
sys.path.insert(0, os.path.join(HERE, 'lib'))
import decl_engine as d
world = d.World(d.dump_items())
inv = d.inventory(world)
path = os.path.join(HERE, 'spec', 'panic_sites.json')
old = json.load(open(path)) if os.path.exists(path) else {'sites': {}}
out = {'_comment': 'C04: inventory of potential panic / UB / overflow sites per function of /repo/src (token-level scan by lib/decl_engine.py: unwrap, expect, unwrap_unchecked, unsafe, indexing/slicing, narrowing casts, arithmetic, panicking macros, infallible From conversions, loops). A function gaining a site that is not listed here makes C04 undecided until a covering contract is written.', 'sites': {}}
for k, c in sorted(inv.items()):
    out['sites'][k] = {'counts': c, 'covered_by': old['sites'].get(k, {}).get('covered_by', 'TODO')}
json.dump(out, open(path, 'w'), indent=1)
print(len(inv), 'functions with sites')
