#!/usr/bin/env python3
"""Calibration helper: runs every distinct Kani harness of the registry once (both tiers), grouped by feature set, and prints
status and time per harness.  Not part of any registered check."""
import sys
sys.path.insert(0, '/verif/lib')
import registry
import kani_engine as k

seen = {}
for p in registry.PROPS.values():
    for h in p.get('kani', []):
        seen[(h.features or '', h.name)] = h
only = sys.argv[1:] 
groups = {}
for (f, n), h in seen.items():
    if only and not any(s in n for s in only):
        continue
    groups.setdefault(f, []).append(h)
for f, hs in groups.items():
    r = k.run_group(f, hs, jobs=8)
    obs = r[0] if isinstance(r, tuple) else r
    for o in sorted(obs, key=lambda o: -o.time_s):
        print('%-11s %7.1fs  %s  %s' % (o.status, o.time_s, o.name, (o.detail or '')[:160]), flush=True)
