#!/bin/bash
# usage: confirm_seed.sh <patch.diff> <demo.rs> [features]
# Confirms a seeded change in a scratch worktree of /repo: (a) the 36 baseline tests pass with the change,
# (b) the demonstration fails with the change, (c) the demonstration passes without it. Prints a summary line.
set -u
PATCH=$(readlink -f "$1"); DEMO=$(readlink -f "$2"); FEAT="${3:-}"
WT=$(mktemp -d /tmp/cs_XXXXXX); rmdir "$WT"
git -C /repo worktree add --detach -q "$WT" HEAD || exit 3
cp /repo/Cargo.lock "$WT/"
cd "$WT"
F=""; [ -n "$FEAT" ] && F="--features $FEAT"
cp "$DEMO" tests/seed_demo.rs
cargo test --offline $F --test seed_demo >/dev/null 2>&1; clean=$([ $? -eq 0 ] && echo 1 || echo 0)
if ! git apply "$PATCH"; then echo "RESULT apply=FAIL"; cd /; git -C /repo worktree remove --force "$WT"; exit 3; fi
rm tests/seed_demo.rs
base=$(cargo test --offline 2>&1 | grep "test result" | awk '{p+=$4; f+=$6} END {print p"/"f}')
cp "$DEMO" tests/seed_demo.rs
cargo test --offline $F --test seed_demo >/dev/null 2>&1; mut=$([ $? -ne 0 ] && echo 1 || echo 0)
echo "RESULT apply=ok baseline_with_change(pass/fail)=$base demo_passes_unchanged=$clean demo_fails_with_change=$mut"
cd /; git -C /repo worktree remove --force "$WT"
