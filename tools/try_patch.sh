#!/bin/bash
# usage: try_patch.sh <patch-file|-e 'sed expr' file> -- <ID>...   : run checks against a scratch worktree of /repo with the patch applied
set -u
PATCH="$1"; shift
[ "$1" = "--" ] && shift
WT=$(mktemp -d /tmp/wt_XXXXXX)
rmdir "$WT"
git -C /repo worktree add --detach -q "$WT" HEAD || exit 3
cp /repo/Cargo.lock "$WT/" 2>/dev/null
if ! git -C "$WT" apply "$PATCH"; then echo "patch does not apply"; git -C /repo worktree remove --force "$WT"; exit 3; fi
rc=0
for id in "$@"; do
  mkdir -p /tmp/rs_evidence; VERIF_REPO="$WT" VERIF_EVIDENCE=/tmp/rs_evidence /verif/check "$id" ${TIER:+--tier $TIER}
  r=$?; echo "== $id rc=$r"; [ $r -gt $rc ] && rc=$r
done
git -C /repo worktree remove --force "$WT"
exit $rc
