import json,re
p='/verif/DESIGN.md'
t=open(p).read()
rows=[]
for i in range(1,20):
    pid='C%02d'%i
    e=json.load(open('/verif/evidence/%s.json'%pid))
    c=e['coverage']; rows.append('%s %d+%d / %.0f s'%(pid,c['obligations'],c['bounded_obligations'],e['wall_s']))
note='**After the last session** (units of §10.4h added; quick tier: unbounded-proof obligations + bounded obligations / wall time, several checks running at once, so the times are upper bounds): '+'; '.join(rows)+'.\n'
t=re.sub(r'\*\*After the last session\*\*.*?\.\n','',t,flags=re.S)
anchor='The thorough tier adds the slower Kani harnesses'
t=t.replace(anchor,note+'\n'+anchor,1)
open(p,'w').write(t)
