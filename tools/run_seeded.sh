#!/bin/bash
# usage: run_seeded.sh <seed-id> [property ...]   (default property: the one the seed breaks)
# Applies seeded/<id>/patch.diff in a scratch git worktree of /repo, runs ./check there (VERIF_REPO), records the outcome in
# seeded/<id>/result.txt, removes the worktree.
set -u
seed=$1; shift
props="$@"
[ -z "$props" ] && props=$(python3 -c "import json;print(json.load(open('/verif/seeded/$seed/meta.json'))['breaks_property'])")
WT=$(mktemp -d /tmp/rs_XXXXXX); rmdir "$WT"
git -C /repo worktree add --detach -q "$WT" HEAD || exit 3
cp /repo/Cargo.lock "$WT/"
git -C "$WT" apply /verif/seeded/$seed/patch.diff || { echo "patch does not apply"; git -C /repo worktree remove --force "$WT"; exit 3; }
out=/verif/seeded/$seed/result.txt
: > $out
for p in $props; do
  # separate Kani caches per scratch tree would cost a full rebuild each; a per-seed cache dir is removed afterwards
  mkdir -p /tmp/rs_evidence; VERIF_REPO="$WT" VERIF_EVIDENCE=/tmp/rs_evidence /verif/check $p --tier ${TIER:-quick} > /tmp/rs_$seed.$p.out 2> /tmp/rs_$seed.$p.err
  rc=$?
  echo "check $p (tier ${TIER:-quick}) on seed $seed: exit $rc" >> $out
  grep -E "^VIOLATION|^KNOWN-FINDING" /tmp/rs_$seed.$p.out >> $out
  grep -E "^UNDECIDED" /tmp/rs_$seed.$p.err | head -5 >> $out
  tail -1 /tmp/rs_$seed.$p.err >> $out
done
cat $out
git -C /repo worktree remove --force "$WT"
