"""Mechanical extraction of Rust items from /repo (and from pinned dependency sources).

extract_item(text, header_regex) returns the source text of ONE item: the contiguous
attribute / doc-comment lines above the header line, the header, and everything up to the
matching closing brace (or the terminating ';' when the item has no body).  Nothing inside
the item is rewritten, except for the explicitly listed, purely syntactic "drops" which are
reported to the caller so that every evidence file can state them.

Brace matching is lexical and understands line comments, (nested) block comments, string
literals, raw strings, byte strings and char literals / lifetimes.
"""
import re


class AnchorLost(Exception):
    pass


def _scan_to_item_end(text, start):
    """Return index one past the end of the item whose header starts at `start`."""
    i = start
    n = len(text)
    depth = 0
    seen_brace = False
    paren = 0
    while i < n:
        c = text[i]
        c2 = text[i:i + 2]
        if c2 == '//':
            j = text.find('\n', i)
            i = n if j < 0 else j
            continue
        if c2 == '/*':
            d = 1
            i += 2
            while i < n and d:
                if text[i:i + 2] == '/*':
                    d += 1
                    i += 2
                elif text[i:i + 2] == '*/':
                    d -= 1
                    i += 2
                else:
                    i += 1
            continue
        if c == '"' or (c in 'b' and text[i + 1:i + 2] == '"'):
            if c == 'b':
                i += 1
            i += 1
            while i < n and text[i] != '"':
                if text[i] == '\\':
                    i += 1
                i += 1
            i += 1
            continue
        m = re.match(r'b?r(#*)"', text[i:i + 12]) if c in 'br' else None
        if m and (i == 0 or not (text[i - 1].isalnum() or text[i - 1] == '_')):
            hashes = m.group(1)
            end = text.find('"' + hashes, i + len(m.group(0)))
            i = n if end < 0 else end + 1 + len(hashes)
            continue
        if c == "'":
            # char literal or lifetime
            m = re.match(r"'(\\.[^']*|[^'\\])'", text[i:i + 12])
            if m:
                i += len(m.group(0))
                continue
            i += 1
            continue
        if c in '([':
            paren += 1
        elif c in ')]':
            paren -= 1
        elif c == '{':
            depth += 1
            seen_brace = True
        elif c == '}':
            depth -= 1
            if depth == 0 and seen_brace:
                return i + 1
        elif c == ';' and depth == 0 and paren == 0 and not seen_brace:
            return i + 1
        i += 1
    raise AnchorLost('unterminated item')


def find_item(text, header_regex, nth=0):
    ms = list(re.finditer(header_regex, text, flags=re.M))
    if len(ms) <= nth:
        raise AnchorLost('anchor not found: %s' % header_regex)
    m = ms[nth]
    # start of header line
    ls = text.rfind('\n', 0, m.start()) + 1
    # walk upwards over attribute / doc / blank-free lines
    start = ls
    while start > 0:
        pl = text.rfind('\n', 0, start - 1) + 1
        line = text[pl:start - 1].strip()
        if line.startswith('#[') or line.startswith('///') or line.startswith('//'):
            start = pl
            continue
        # continuation of a multi-line attribute:   #[serde(\n  default,\n )]
        if line.endswith(')]') or line.endswith(','):
            # look further up for the opening "#[" within 8 lines
            k = pl
            ok = False
            for _ in range(8):
                if k == 0:
                    break
                pk = text.rfind('\n', 0, k - 1) + 1
                l2 = text[pk:k - 1].strip()
                if l2.startswith('#[') and not l2.endswith(']'):
                    ok = True
                    k = pk
                    break
                if l2 == '' or l2.endswith('}') or l2.endswith(';'):
                    break
                k = pk
            if ok:
                start = k
                continue
        break
    end = _scan_to_item_end(text, ls)
    return start, end


DERIVE_KEEP = ('Clone', 'Copy', 'Debug', 'Eq', 'PartialEq', 'Default')


def normalise(item_text, drops):
    """Apply the documented syntactic drops; `drops` (a dict counter) is updated."""
    out = []
    lines = item_text.split('\n')
    i = 0

    def bump(k):
        drops[k] = drops.get(k, 0) + 1

    while i < len(lines):
        line = lines[i]
        s = line.strip()
        if s.startswith('///') or s.startswith('//!'):
            bump('doc comment lines')
            i += 1
            continue
        if s.startswith('#[cfg_attr(feature = "arbitrary"'):
            bump('#[cfg_attr(feature = "arbitrary", ..)] lines')
            i += 1
            continue
        if s.startswith('#[cfg_attr(') and s.endswith(']'):
            bump('#[cfg_attr(..)] lines')
            i += 1
            continue
        if s.startswith('#[serde') or s.startswith('#[serde_indexed'):
            # possibly multi-line
            bump('#[serde(..)] attributes')
            while not lines[i].strip().endswith(']'):
                i += 1
            i += 1
            continue
        if s.startswith('#[allow(') or s.startswith('#[inline') or s.startswith('#[non_exhaustive]'):
            bump('#[allow]/#[inline]/#[non_exhaustive] attributes')
            i += 1
            continue
        m = re.match(r'(\s*)#\[derive\((.*)\)\]\s*$', line)
        if m:
            names = [x.strip() for x in m.group(2).split(',') if x.strip()]
            keep = [x for x in names if x in DERIVE_KEEP]
            for x in names:
                if x not in DERIVE_KEEP:
                    bump('derive(%s)' % x)
            if keep:
                out.append('%s#[derive(%s)]' % (m.group(1), ', '.join(keep)))
            i += 1
            continue
        out.append(line)
        i += 1
    return '\n'.join(out)


def extract(path, header_regex, drops, nth=0, raw=False):
    text = open(path).read()
    s, e = find_item(text, header_regex, nth)
    item = text[s:e]
    if raw:
        return item
    return normalise(item, drops)


def strip_macro_calls(text, names, drops):
    """Remove statement-level calls of logging macros (debug_now!(..); info!(..);) which
    expand to nothing without the delog features; listed in the evidence as a drop."""
    for nm in names:
        pat = re.compile(r'^\s*' + re.escape(nm) + r'!\((?:[^()]|\([^()]*\))*\);\s*\n', re.M)
        text, k = pat.subn('', text)
        if k:
            drops['%s!(..) logging statements' % nm] = drops.get('%s!(..) logging statements' % nm, 0) + k
    return text
