import sys
sys.path.insert(0,'/verif/lib')
import verus_engine as v
obs,info=v.run_unit(sys.argv[1],'X')
for o in obs:
    print(o.status, o.name, round(o.time_s,3))
    if o.output: print(o.output)
print({k:v for k,v in info.items() if k!='extracted'})
