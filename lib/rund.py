import sys
sys.path.insert(0,'/verif/lib')
import decl_engine as d
obs,info=d.run(sys.argv[1],True,'quick')
n=0
for o in obs:
    if o.status!='discharged':
        n+=1
        print(o.status,o.name); print('   ',o.detail[:400])
        if o.status=='undecided': print(o.output[-2000:])
print(len(obs),'obligations',n,'not discharged',info.get('verus_total_ms'))
