"""Engine K: Kani (CBMC) on the real crate, harnesses in /verif/kani included through the
cfg(kani) hooks of /repo.  One `cargo kani` invocation per feature configuration."""
import os
import re
import shutil

from common import (CACHE, DISCHARGED, FAILED, REPLAYS, REPO, UNDECIDED, VERIF, Ob, claim_target_dir, log, run)

# fixed location: the proof modules include these files by absolute path
PLAYBACK_DIR = os.path.join(VERIF, '.cache', 'playback')
PLAYBACK_FILES = ('root.rs', 'webauthn.rs', 'arbitrary.rs')


class H:
    """A Kani harness = one contract obligation on a real function."""

    def __init__(self, name, functions, kind='proof', bound=None, features='', tier='quick',
                 timeout=1200, note='', mem_gb=24):
        self.name = name
        self.functions = functions      # the /repo functions under contract
        self.kind = kind                # proof | bounded | gc
        self.bound = bound
        self.features = features        # cargo features, comma separated ('' = default)
        self.tier = tier                # quick => run in both tiers; thorough => thorough only
        self.timeout = timeout
        self.note = note
        self.mem_gb = mem_gb            # address-space limit of the cargo-kani process tree (GB)


def ensure_playback_files(reset=False):
    os.makedirs(PLAYBACK_DIR, exist_ok=True)
    for f in PLAYBACK_FILES:
        p = os.path.join(PLAYBACK_DIR, f)
        if reset or not os.path.exists(p):
            with open(p, 'w') as fh:
                fh.write('// generated: concrete playback tests (empty unless a replay is in progress)\n')


def cfg_name(features):
    return 'default' if not features else features.replace(',', '+')


def base_cmd(features, jobs=None):
    cmd = ['cargo', 'kani', '--manifest-path', os.path.join(REPO, 'Cargo.toml'),
           '--target-dir', os.path.join(CACHE, 'kani-' + cfg_name(features)),
           '-Z', 'function-contracts', '-Z', 'stubbing', '-Z', 'unstable-options']
    if features:
        cmd += ['--features', features]
    return cmd


_RES = re.compile(r'VERIFICATION:- (SUCCESSFUL|FAILED)')


def parse_terse(out):
    """Return {harness_fullname: (status, block_text)} from `--output-format terse` output,
    sequential or with `Thread N:` prefixes."""
    res = {}
    cur = {}      # thread -> harness
    blocks = {}   # harness -> text
    thread = None
    for line in out.split('\n'):
        m = re.match(r'(?:Thread (\d+): )?Checking harness (\S+?)\.\.\.', line)
        if m:
            thread = m.group(1) or '0'
            cur[thread] = m.group(2)
            blocks[m.group(2)] = ''
            continue
        m = re.match(r'Thread (\d+): ?(.*)', line)
        if m:
            thread = m.group(1)
            line = m.group(2)
        if thread is not None and thread in cur:
            blocks[cur[thread]] += line + '\n'
    for h, txt in blocks.items():
        m = _RES.search(txt)
        if m:
            res[h] = (m.group(1), txt)
        else:
            res[h] = ('NORESULT', txt)
    return res


def classify(status, txt):
    """Map a Kani result block to (ob_status, detail)."""
    if status == 'SUCCESSFUL':
        m = re.search(r'(\d+) of (\d+) cover properties satisfied', txt)
        if m and m.group(1) != m.group(2):
            return UNDECIDED, 'vacuity guard: only %s of %s cover properties satisfiable' % (m.group(1), m.group(2))
        return DISCHARGED, ''
    if status == 'FAILED':
        fails = re.findall(r'Failed Checks: (.*)', txt)
        real = [f for f in fails if 'unwinding assertion' not in f and 'not currently supported' not in f
                and 'is not supported' not in f]
        if 'timed out' in txt.lower() or 'timeout' in txt.lower() and not fails:
            return UNDECIDED, 'harness timeout'
        if 'out of memory' in txt.lower() or 'std::bad_alloc' in txt or 'Killed' in txt or 'SIGKILL' in txt or 'SIGABRT' in txt:
            if not real:
                return UNDECIDED, 'CBMC ran out of memory'
        if fails and not real:
            return UNDECIDED, 'only unwinding / unsupported-construct checks failed: %s' % '; '.join(fails[:3])
        if real:
            return FAILED, '; '.join(real[:4])
        return UNDECIDED, 'verification failed without a failed check (solver crash / limit)'
    return UNDECIDED, 'no verification result (timeout, memory limit or crash)'


def run_group(features, harnesses, jobs=8):
    """Run all harnesses of one feature configuration. Returns ([Ob], info)."""
    ensure_playback_files()
    claim_target_dir(os.path.join(CACHE, 'kani-' + cfg_name(features)))
    to = max(h.timeout for h in harnesses)
    cmd = base_cmd(features) + ['--harness-timeout', '%ds' % to, '--output-format', 'terse', '--exact']
    cmd += ['-j', str(min(jobs, len(harnesses)))]
    names = {}
    for h in harnesses:
        cmd += ['--harness', h.name]
        names[h.name] = h
    info = {'cmd': ' '.join(cmd), 'features': features or '(default)'}
    rc, out, wall, timed_out = run(cmd, timeout=to * max(1, (len(harnesses) + jobs - 1) // jobs) + 900,
                                   mem_gb=(None if any(h.mem_gb is None for h in harnesses) else max(h.mem_gb for h in harnesses)))
    info['wall_s'] = round(wall, 1)
    obs = []
    res = parse_terse(out)
    if 'error: could not compile' in out or 'error[E' in out or (not res and rc != 0):
        tail = '\n'.join([l for l in out.split('\n') if 'unstable' not in l and 'register_tool' not in l][-60:])
        for h in harnesses:
            obs.append(Ob(h.name, 'kani', UNDECIDED, detail='the crate + harnesses did not compile under cargo kani '
                          '(API change or construct outside Kani\'s subset)', kind=h.kind, bound=h.bound,
                          functions=h.functions, output=tail))
        info['compile_error'] = True
        return obs, info
    for h in harnesses:
        if h.name not in res:
            obs.append(Ob(h.name, 'kani', UNDECIDED, detail='harness not found / not run', kind=h.kind, bound=h.bound,
                          functions=h.functions, output=out[-3000:]))
            continue
        status, txt = res[h.name]
        st, det = classify(status, txt)
        tm = re.search(r'Verification Time: ([0-9.]+)s', txt)
        t = float(tm.group(1)) if tm else 0.0
        nchecks = re.search(r'\*\* (\d+) of (\d+) failed', txt)
        o = Ob(h.name, 'kani', st, t, detail=det, kind=h.kind, bound=h.bound, functions=h.functions,
               output=txt[-6000:] if st != DISCHARGED else '')
        o.cbmc_checks = int(nchecks.group(2)) if nchecks else 0
        obs.append(o)
    return obs, info


def playback(h_full, features):
    """Re-run a failed harness with concrete playback, install the generated unit test next to the
    harness module and execute it natively against the real crate. Returns (text, reproduced)."""
    ensure_playback_files(reset=True)
    cmd = base_cmd(features) + ['-Z', 'concrete-playback', '--concrete-playback=print',
                                '--harness', h_full, '--exact', '--output-format', 'terse',
                                '--harness-timeout', '900s']
    rc, out, wall, to = run(cmd, timeout=1200, mem_gb=24)
    m = re.search(r'```\n?(.*?)```', out, flags=re.S)
    if not m:
        # older format: the test is printed between "Concrete playback unit test" markers
        m = re.search(r'(#\[test\]\s*fn kani_concrete_playback_.*?\n}\n)', out, flags=re.S)
    if not m:
        return None, False, out[-2000:]
    test = m.group(1)
    parts = h_full.split('::')
    if parts[0] == 'verif_proofs':
        target, rel = 'root.rs', 'super::' + '::'.join(parts[1:])
    elif parts[0] == 'webauthn':
        target, rel = 'webauthn.rs', 'super::' + '::'.join(parts[2:])
    else:
        target, rel = 'arbitrary.rs', 'super::' + '::'.join(parts[2:])
    bare = parts[-1]
    test2 = re.sub(r'(kani::concrete_playback_run\(\s*concrete_vals\s*,\s*)%s\b' % re.escape(bare), r'\1' + rel, test)
    with open(os.path.join(PLAYBACK_DIR, target), 'w') as f:
        f.write('// generated by `cargo kani -Z concrete-playback --concrete-playback=print`\n' + test2 + '\n')
    tname = re.search(r'fn (kani_concrete_playback_\w+)', test2).group(1)
    cmd2 = ['cargo', 'kani', 'playback', '-Z', 'concrete-playback', '--manifest-path', os.path.join(REPO, 'Cargo.toml'),
            '--lib']
    if features:
        cmd2 += ['--features', features]
    cmd2 += ['--', tname]
    claim_target_dir(os.path.join(CACHE, 'kani-playback-' + cfg_name(features)))
    rc2, out2, wall2, to2 = run(cmd2, timeout=900,
                                env={'CARGO_TARGET_DIR': os.path.join(CACHE, 'kani-playback-' + cfg_name(features))})
    ensure_playback_files(reset=True)
    reproduced = ('test result: FAILED' in out2) or ('panicked at' in out2)
    keep = [l for l in out2.split('\n') if 'unstable' not in l and 'register_tool' not in l and 'force-warn' not in l]
    return test, reproduced, '\n'.join(keep[-40:])
