"""Engine X: validation of the derive-macro contracts (A1, A2, A3) on the ACTUAL macro expansion.

Engine D interprets the declarations under the assumed semantics of serde-indexed / serde_derive.
This module removes most of that assumption: on every run the crate is macro-expanded by the
installed nightly rustc (`cargo +nightly rustc --lib -- -Zunpretty=expanded`, offline, one run per
feature configuration), the expansion is parsed by tools/declx (syn), and for every struct the wire
table that the GENERATED CODE implements is extracted from the generated `serialize` /
`deserialize` bodies:

  encode: the sequence of (key, field, guard predicate) of the emitted entries, and whether the
          announced container length is `Some(<number of unguarded entries + guarded ones present>)`;
  decode: key -> field mapping, which fields raise `missing_field` when absent, whether unknown keys
          are ignored (`__ignore`) or rejected, whether duplicates are rejected.

Obligations (named, discharged by Verus like all Engine D obligations): the table implemented by the
expansion equals the effective table Engine D derived from the declaration.  What remains assumed
afterwards is the serde runtime protocol (SerializeMap / MapAccess) and cbor-smol — not the macros.
"""
import hashlib
import json
import os
import re
import subprocess

import common
from common import CACHE, REPO, VERIF, run
import decl_engine as D

DECLX = D.DECLX


class ExpandError(Exception):
    pass


def _src_digest():
    h = hashlib.sha256()
    for root, _, files in sorted(os.walk(os.path.join(REPO, 'src'))):
        for f in sorted(files):
            p = os.path.join(root, f)
            h.update(p.encode())
            h.update(open(p, 'rb').read())
    h.update(open(os.path.join(REPO, 'Cargo.toml'), 'rb').read())
    return h.hexdigest()[:16]


def expansion_items(config):
    """declx JSON of the macro-expanded crate in feature configuration `config` (frozenset)."""
    feats = ','.join(sorted(config))
    tag = (feats.replace(',', '+') or 'default')
    d = os.path.join(CACHE, 'expand')
    os.makedirs(d, exist_ok=True)
    digest = _src_digest()
    out_json = os.path.join(d, '%s-%s.json' % (tag, digest))
    if os.path.exists(out_json):
        return json.load(open(out_json))
    common.claim_target_dir(os.path.join(CACHE, 'expand-target'))
    cmd = ['cargo', '+nightly', 'rustc', '--offline', '--lib', '--manifest-path', os.path.join(REPO, 'Cargo.toml'),
           '--target-dir', os.path.join(CACHE, 'expand-target')]
    if feats:
        cmd += ['--features', feats]
    cmd += ['--', '-Zunpretty=expanded']
    p = subprocess.run(cmd, stdout=subprocess.PIPE, stderr=subprocess.PIPE, text=True,
                       env=dict(os.environ, CARGO_NET_OFFLINE='true'), timeout=900)
    if p.returncode != 0 or len(p.stdout) < 1000:
        raise ExpandError('macro expansion failed (%s): %s' % (tag, p.stderr[-600:]))
    work = os.path.join(d, 'src-' + tag)
    os.makedirs(os.path.join(work, 'src'), exist_ok=True)
    with open(os.path.join(work, 'src', 'lib.rs'), 'w') as f:
        f.write(p.stdout)
    q = subprocess.run([DECLX, work, 'src/lib.rs'], stdout=subprocess.PIPE, stderr=subprocess.PIPE, text=True)
    if q.returncode != 0:
        raise ExpandError('declx cannot parse the expansion (%s): %s' % (tag, q.stderr[-400:]))
    items = json.loads(q.stdout)
    for old in os.listdir(d):
        if old.startswith(tag + '-') and old.endswith('.json'):
            os.remove(os.path.join(d, old))
    json.dump(items, open(out_json, 'w'))
    return items


def _impls(items):
    """(module, type name, 'ser'|'de') -> body token text of the generated impl."""
    out = {}
    for it in items:
        if it['kind'] != 'impl':
            continue
        tr = it['trait'].replace(' ', '')
        if tr.endswith('Serialize') and not tr.endswith('Deserialize'):
            kind = 'ser'
        elif re.search(r'Deserialize<', tr):
            kind = 'de'
        else:
            continue
        name = it['self_ty'].split('<')[0].strip()
        mod = it['module'].strip(':')
        body = ' '.join(f['body'] for f in it['fns'])
        out[(mod, name, kind)] = body
    return out


GUARD = r'if ! ((?:\w+ :: )*\w+) \(& self \. (\w+)\) \{ '


def ser_table(body):
    """Extract the table implemented by a generated `serialize` body. Returns dict or None when the
    body is not a derive expansion of a keyed map (hand-written impl, enum, ...)."""
    rows = []
    if 'map . serialize_entry' in body:
        kind = 'indexed'
        for m in re.finditer(r'(?:%s)?map \. serialize_entry \(& (\d+)usize , & self \. (\w+)\) \?' % GUARD, body):
            guard, gfield, key, field = m.group(1), m.group(2), int(m.group(3)), m.group(4)
            if guard and gfield != field:
                guard = '%s(on %s)' % (guard, gfield)
            rows.append({'key': key, 'field': field, 'guard': guard.replace(' ', '') if guard else None})
        lm = re.search(r'let num_fields = (.*?) ; let mut map = serializer \. serialize_map \(Some \(num_fields\)\)', body)
        definite = bool(lm)
        terms = lm.group(1) if lm else ''
    elif 'SerializeStruct :: serialize_field' in body:
        kind = 'struct'
        for m in re.finditer(r'(?:%s)?_serde :: ser :: SerializeStruct :: serialize_field \(& mut __serde_state , "([^"]+)" , & self \. (\w+)\) \?' % GUARD, body):
            guard, gfield, key, field = m.group(1), m.group(2), m.group(3), m.group(4)
            rows.append({'key': key, 'field': field, 'guard': guard.replace(' ', '') if guard else None})
        lm = re.search(r'serialize_struct \(__serializer , "\w+" , (.*?)\) \? ;', body)
        definite = bool(lm)
        terms = lm.group(1) if lm else ''
    elif 'Serializer :: serialize_struct (__serializer' in body:
        kind = 'struct'          # a braced struct without members
        lm = re.search(r'serialize_struct \(__serializer , "\w+" , (.*?)\) \? ;', body)
        definite = bool(lm)
        terms = lm.group(1) if lm else ''
    elif 'serialize_unit_struct' in body:
        return {'kind': 'unit', 'rows': [], 'definite_length': True, 'len_guarded': [], 'len_plain': 0, 'len_expr': 'unit struct (emitted as null)'}
    else:
        return None
    # the announced length: one term per row, `1` / `false as usize + ..` for unguarded rows, a conditional for guarded ones
    guarded = re.findall(r'if ((?:\w+ :: )*\w+) \(& self \. (\w+)\) \{ 0 \} else \{ 1 \}', terms)
    n_guard_terms = len(guarded)
    n_plain = len(re.findall(r'(?:^|\+ )1(?= |$)', terms))
    return {'kind': kind, 'rows': rows, 'definite_length': definite,
            'len_guarded': sorted(f for _, f in guarded), 'len_plain': n_plain, 'len_expr': terms[:400]}


def de_table(body):
    if '__serde_indexed_internal_key' in body:
        kind = 'indexed'
        rows = []
        for m in re.finditer(r'(\d+)usize => \{ if (\w+) \. is_some \(\) \{ return Err \(serde :: de :: Error :: duplicate_field \("(\w+)"\)\) ; \} (\w+) = Some \(map \. next_value \(\) \?\) ; \}', body):
            rows.append({'key': int(m.group(1)), 'field': m.group(4), 'dup_check_on': m.group(2)})
        unknown_rejected = bool(re.search(r'_ => \{ return Err \(', body))
        required = re.findall(r'let (\w+) = \1 \. ok_or_else \(\| \| serde :: de :: Error :: missing_field \("\w+"\)\) \?', body)
        return {'kind': kind, 'rows': rows, 'unknown': 'rejected' if unknown_rejected else 'ignored', 'required': sorted(required),
                'dup_rejected': all(r['dup_check_on'] == r['field'] for r in rows)}
    if '__FieldVisitor' in body and 'visit_map' in body:
        kind = 'struct'
        vs = re.search(r'fn visit_str < __E > .*?match __value \{ (.*?) \} \} fn visit_bytes', body)
        if not vs:
            return None
        arms = re.findall(r'"([^"]+)" => _serde :: __private\d* :: Ok \(__Field :: (__field\d+)\)', vs.group(1))
        ignore = bool(re.search(r'_ => \{ _serde :: __private\d* :: Ok \(__Field :: __ignore\) \}', vs.group(1)))
        lit = re.search(r'_serde :: __private\d* :: Ok \(\w+ \{ ((?:\w+ : __field\d+ ,? ?)+)\}\)', body)
        fmap = dict((b, a) for a, b in re.findall(r'(\w+) : (__field\d+)', lit.group(1))) if lit else {}
        missing = {}
        for m in re.finditer(r'let (__field\d+) = match \1 \{ _serde :: __private\d* :: Some \(\1\) => \1 , _serde :: __private\d* :: None => (.*?) , \} ;', body):
            h = m.group(2)
            missing[m.group(1)] = 'missing_field' if 'missing_field' in h else ('default' if 'Default :: default' in h else h[:40])
        types = dict(re.findall(r'__Field :: (__field\d+) => \{ if _serde :: __private\d* :: Option :: is_some \(& \1\) \{ return _serde :: __private\d* :: Err \(< __A :: Error as _serde :: de :: Error > :: duplicate_field \("[^"]+"\)\) ; \} \1 = _serde :: __private\d* :: Some \((.*?)\) ; \}', body))
        rows = []
        for key, fld in arms:
            ty = types.get(fld, '')
            tm = re.search(r'next_value :: < (.*?) > \(& mut __map\)', ty)
            with_wrapper = '__DeserializeWith' in ty
            rows.append({'key': key, 'field': fmap.get(fld, '?'), 'slot': fld, 'on_missing': missing.get(fld, '?'),
                         'value_type': tm.group(1).replace(' ', '') if tm else ('<deserialize_with>' if with_wrapper else '?'),
                         'dup_rejected': fld in types})
        return {'kind': kind, 'rows': rows, 'unknown': 'ignored' if ignore else 'rejected',
                'required': sorted(r['field'] for r in rows if r['on_missing'] == 'missing_field' and not r['value_type'].startswith('Option<')),
                'dup_rejected': all(r['dup_rejected'] for r in rows)}
    return None


def tables(config):
    items = expansion_items(config)
    imp = _impls(items)
    out = {}
    for (mod, name, kind), body in imp.items():
        t = ser_table(body) if kind == 'ser' else de_table(body)
        if t is not None:
            out[('%s::%s' % (mod, name), kind)] = t
    return out


def gen_expansion_obligations(g, world, structs, directions, configs):
    """For each struct in `structs` (qualified names as in Engine D), each direction in `directions`
    ('ser', 'de') and each configuration: the expansion implements exactly the effective table."""
    cache = {}
    for c in configs:
        try:
            cache[c] = tables(c)
        except ExpandError as e:
            g.add('expansion__%s__available' % D.cfg_label(c), 'true', 'false', 'macro expansion unavailable: %s' % e, soft=True)
            cache[c] = None
    for q in structs:
        if q not in world.structs:
            continue
        sl = D.struct_label(q)
        seen = set()
        for c in configs:
            if cache[c] is None:
                continue
            eff = D.effective(world, q, c)
            if eff is None:
                continue
            sig = json.dumps(eff, sort_keys=True, default=str)
            if sig in seen:
                continue          # same declaration table as an earlier configuration: same expansion input
            seen.add(sig)
            label = D.cfg_label(c)
            ds = eff['derives']
            for direction in directions:
                derived = ('Serialize' in ds or 'SerializeIndexed' in ds) if direction == 'ser' else ('Deserialize' in ds or 'DeserializeIndexed' in ds)
                if not derived:
                    continue
                t = cache[c].get((q, direction))
                if t is None:
                    g.add('expansion__%s__%s__%s__found' % (sl, label, direction), 'true', 'false',
                          'no derive expansion of %s for %s found in the macro-expanded crate (%s)' % (direction, q, label))
                    continue
                if direction == 'ser':
                    rows = [r for r in eff['rows'] if not r['skip_serializing'] and not r['skip']]
                    want = [[r['key'], r['field'], (r['skip_if'] or None)] for r in rows]
                    have = [[r['key'], r['field'], r['guard']] for r in t['rows']]
                    g.add('expansion__%s__%s__encoder_emits_declared_rows_in_order' % (sl, label),
                          D._seq(json.dumps(have)), D._seq(json.dumps(want)),
                          'generated serialize of %s emits (key, field, guard) %s; the declaration table says %s' % (q, have, want))
                    g.add('expansion__%s__%s__encoder_definite_length' % (sl, label), 'true' if t['definite_length'] else 'false', 'true',
                          'generated serialize of %s does not announce Some(len): %s' % (q, t['len_expr'][:120]))
                    g.add('expansion__%s__%s__encoder_length_counts_present_members' % (sl, label),
                          D._seq(json.dumps(t['len_guarded'])), D._seq(json.dumps(sorted(r['field'] for r in rows if r['skip_if']))),
                          'announced length of %s counts conditionally %s; guarded members are %s' % (q, t['len_guarded'], sorted(r['field'] for r in rows if r['skip_if'])))
                else:
                    rows = [r for r in eff['rows'] if not r['skip_deserializing'] and not r['skip']]
                    want = sorted([[str(r['key']), r['field']] for r in rows] + [[a, r['field']] for r in rows for a in r['alias']])
                    have = sorted([[str(r['key']), r['field']] for r in t['rows']])
                    g.add('expansion__%s__%s__decoder_maps_keys_to_declared_fields' % (sl, label),
                          D._seq(json.dumps(have)), D._seq(json.dumps(want)),
                          'generated deserialize of %s maps keys %s; the declaration table says %s' % (q, have, want))
                    req_want = sorted(r['field'] for r in rows if not D.decode_optional(eff, r))
                    g.add('expansion__%s__%s__decoder_requires_exactly_the_required_members' % (sl, label),
                          D._seq(json.dumps(t['required'])), D._seq(json.dumps(req_want)),
                          'generated deserialize of %s raises missing_field for %s; required per declaration: %s' % (q, t['required'], req_want))
                    unk_want = 'rejected' if (eff['indexed'] or eff['deny_unknown_fields']) else 'ignored'
                    g.add('expansion__%s__%s__decoder_unknown_keys_%s' % (sl, label, unk_want), D._seq(t['unknown']), D._seq(unk_want),
                          'unknown keys of %s are %s by the generated code' % (q, t['unknown']))
                    g.add('expansion__%s__%s__decoder_rejects_duplicates' % (sl, label), 'true' if t['dup_rejected'] else 'false', 'true',
                          'generated deserialize of %s does not reject a duplicated key for every member' % q)


def gen_enum_expansion_obligations(g, world, spec, configs):
    """serde_repr enums and `#[serde(into = "&str", try_from = "&str")]` enums: the generated code maps every
    variant to ITS OWN discriminant / spelling function and rejects everything else (A2, checked on the expansion).
    Together with the Verus discriminant proofs (unit c18_numeric_tables) and the Kani string-table proofs this
    closes the wire mapping of the identifier enums."""
    for c in configs:
        try:
            imp = _impls(expansion_items(c))
        except ExpandError as e:
            g.add('expansion__enums__%s__available' % D.cfg_label(c), 'true', 'false', 'macro expansion unavailable: %s' % e, soft=True)
            continue
        label = D.cfg_label(c)
        for q in spec['repr_enums']:
            it = world.enums.get(q)
            if it is None:
                continue
            mod, name = q.rsplit('::', 1)
            variants = [v['name'] for v in it['variants']]
            sl = D.struct_label(q)
            ser = imp.get((mod, name, 'ser'), '')
            arms = re.findall(r'%s :: (\w+) => %s :: (\w+) as (\w+)' % (name, name), ser)
            g.add('expansion__%s__%s__encodes_each_variant_as_its_own_discriminant' % (sl, label),
                  D._seq(json.dumps(arms)), D._seq(json.dumps([[v, v, 'u8'] for v in variants])),
                  'generated serialize of %s: %s' % (q, arms))
            de = imp.get((mod, name, 'de'), '')
            darms = re.findall(r'discriminant :: (\w+) => :: core :: result :: Result :: Ok \(%s :: (\w+)\)' % name, de)
            consts = re.findall(r'const (\w+) : u8 = %s :: (\w+) as u8' % name, de)
            g.add('expansion__%s__%s__decodes_each_discriminant_to_its_own_variant' % (sl, label),
                  D._seq(json.dumps([darms, consts])), D._seq(json.dumps([[[v, v] for v in variants], [[v, v] for v in variants]])),
                  'generated deserialize of %s: arms %s, constants %s' % (q, darms, consts))
            g.add('expansion__%s__%s__rejects_every_other_number' % (sl, label),
                  'true' if re.search(r'other => :: core :: result :: Result :: Err \(', de) else 'false', 'true',
                  'generated deserialize of %s has no rejecting fallback arm' % q)
            g.add('expansion__%s__%s__reads_a_u8' % (sl, label),
                  'true' if '< u8 as serde :: Deserialize > :: deserialize (deserializer)' in de else 'false', 'true',
                  'generated deserialize of %s does not read the number as u8' % q)
        for q in spec['string_enums']:
            if q not in world.enums:
                continue
            mod, name = q.rsplit('::', 1)
            sl = D.struct_label(q)
            ser = imp.get((mod, name, 'ser'), '')
            de = imp.get((mod, name, 'de'), '')
            g.add('expansion__%s__%s__encodes_through_into_str' % (sl, label),
                  'true' if re.search(r'Into :: < & str > :: into \(_serde :: __private\d* :: Clone :: clone \(self\)\)', ser) else 'false', 'true',
                  'generated serialize of %s does not go through Into<&str>' % q)
            g.add('expansion__%s__%s__decodes_through_try_from_str' % (sl, label),
                  'true' if re.search(r'< & str as _serde :: Deserialize > :: deserialize \(__deserializer\) , \| v \| _serde :: __private\d* :: TryFrom :: try_from \(v\)', de) else 'false', 'true',
                  'generated deserialize of %s does not go through TryFrom<&str>' % q)
