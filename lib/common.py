import json
import os
import resource
import subprocess
import sys
import time

VERIF = os.path.dirname(os.path.dirname(os.path.abspath(__file__)))
REPO = os.environ.get('VERIF_REPO', '/repo')
CACHE = os.environ.get('VERIF_CACHE') or os.path.join(VERIF, '.cache')
EVIDENCE = os.environ.get('VERIF_EVIDENCE') or os.path.join(VERIF, 'evidence')
REPLAYS = os.path.join(VERIF, 'replays')

OFFLINE_ENV = {'CARGO_NET_OFFLINE': 'true', 'GOPROXY': 'off', 'PIP_NO_INDEX': '1'}

DISCHARGED = 'discharged'
FAILED = 'failed'
UNDECIDED = 'undecided'


class Ob:
    """One proof obligation and what happened to it."""

    def __init__(self, name, engine, status, time_s=0.0, detail='', kind='proof', bound=None,
                 functions=None, output=''):
        self.name = name
        self.engine = engine          # 'verus' | 'verus-decl' | 'kani'
        self.status = status
        self.time_s = time_s
        self.detail = detail          # short reason
        self.kind = kind              # 'proof' (complete) | 'bounded' | 'gc' (generator-contract validation, bounded)
        self.bound = bound
        self.functions = functions or []
        self.output = output          # verifier output (for the replay file)
        self.replay = None
        self.counterexample = None

    def to_json(self):
        d = {'name': self.name, 'engine': self.engine, 'status': self.status,
             'time_s': round(self.time_s, 3), 'kind': self.kind}
        if self.bound:
            d['bound'] = self.bound
        if self.detail:
            d['detail'] = self.detail[:400]
        return d


def ensure_dirs():
    for d in (CACHE, EVIDENCE, REPLAYS):
        os.makedirs(d, exist_ok=True)


def _limits(mem_gb):
    def f():
        if mem_gb:
            lim = int(mem_gb * (1 << 30))
            try:
                resource.setrlimit(resource.RLIMIT_AS, (lim, lim))
            except Exception:
                pass
        os.setsid()
    return f


def run(cmd, timeout=None, cwd=None, env=None, mem_gb=None):
    """Run a command; returns (rc, stdout+stderr, wall_s, timed_out)."""
    e = dict(os.environ)
    e.update(OFFLINE_ENV)
    if env:
        e.update(env)
    t0 = time.time()
    p = subprocess.Popen(cmd, cwd=cwd, env=e, stdout=subprocess.PIPE, stderr=subprocess.STDOUT,
                         preexec_fn=_limits(mem_gb), text=True, errors='replace')
    try:
        out, _ = p.communicate(timeout=timeout)
        return p.returncode, out, time.time() - t0, False
    except subprocess.TimeoutExpired:
        try:
            os.killpg(p.pid, 9)
        except Exception:
            pass
        out, _ = p.communicate()
        return -9, out or '', time.time() - t0, True


def repo_head():
    try:
        return subprocess.check_output(['git', '-C', REPO, 'rev-parse', 'HEAD'], text=True).strip()
    except Exception:
        return 'unknown'


def write_json(path, obj):
    tmp = path + '.tmp'
    with open(tmp, 'w') as f:
        json.dump(obj, f, indent=1, sort_keys=False)
        f.write('\n')
    os.replace(tmp, path)


def log(*a):
    print(*a, file=sys.stderr, flush=True)


def claim_target_dir(target_dir):
    """cargo decides freshness by (workspace-relative path, mtime): a target dir last used for ANOTHER checkout of the crate whose
    files are older than the cached artifacts would be reused as-is (observed with cargo kani: `Finished` without `Compiling`,
    stale verdicts).  So remember which tree a target dir was built from, and when it changes drop the crate's own
    fingerprints (dependencies stay cached)."""
    import glob
    import shutil
    os.makedirs(target_dir, exist_ok=True)
    marker = os.path.join(target_dir, '.verif_repo')
    here = os.path.realpath(REPO)
    try:
        last = open(marker).read().strip()
    except Exception:
        last = None
    if last != here:
        for fp in glob.glob(os.path.join(target_dir, '**', '.fingerprint', 'ctap-types-*'), recursive=True):
            shutil.rmtree(fp, ignore_errors=True)
        with open(marker, 'w') as f:
            f.write(here + '\n')
