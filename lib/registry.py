"""Which obligations decide which property."""
import glob
import json
import os
import re

from common import VERIF
from kani_engine import H

ROOT = 'verif_proofs::'
WEB = 'webauthn::verif_proofs::'
ARB = 'arbitrary::verif_proofs::'

ASSUMPTIONS = {
    'A1': 'A1 serde-indexed 0.1.1: key = position + offset; emitted in declaration order; a member is skipped iff its skip_serializing_if predicate holds; decoding requires exactly the members without skip_serializing_if; duplicate or unknown index is an error — CHECKED on every run against the actual macro expansion of this crate (Engine X obligations `expansion__*`, lib/expand_engine.py); what remains assumed is the serde runtime protocol (SerializeMap / MapAccess) that the generated code drives',
    'A2': 'A2 serde_derive 1.0: text-keyed fields in declaration order under their renamed keys; default / missing_field; unknown keys go to deserialize_ignored_any unless deny_unknown_fields; serde_repr maps discriminants both ways and rejects other numbers — for structs CHECKED against the actual macro expansion (Engine X); for the serde_repr enums assumed',
    'A3': 'A3 derived Serialize impls always announce definite lengths — CHECKED on the macro expansion (Some(len) with one term per member, Engine X)',
    'A4': 'A4 heapless 0.7 / heapless-bytes 0.3 / serde_bytes Deserialize impls accept <= N, reject > N and copy verbatim (assumed)',
    'A5': 'A5 #[cfg] on a field is evaluated before any derive macro sees the field list (rustc)',
    'A6': 'A6 cbor-smol ser.rs emits shortest-form heads and each serde call appends exactly its item (checked for scalars by Kani harnesses; otherwise assumed)',
    'A7': 'A7 cosey 0.3 emits COSE key members in the order 1, 3, -1, -2, -3 — CHECKED on the pinned cosey source (obligations cosey__RawPublicKey__*), and that P256 / EcdhEsHkdf256 / Ed25519 / Totp keys and the untagged union PublicKey serialise through RawPublicKey (derived Serialize + serde(into), no hand-written impl; obligations cosey__*__serialises_through_RawPublicKey)',
    'A8': 'A8 cbor-smol de.rs + serde-generated visitors: no panic, terminate, error taxonomy — partly CHECKED: the generated decoders raise missing_field exactly for required members (Engine X), cbor-smol maps missing_field to SerdeMissingField and every other serde error to SerdeDeCustom and never constructs SerdeMissingField in de.rs (obligations cbor_smol__*), the item skipper is proved (unit c06_cbor_skipper); the rest of de.rs (primitive readers, map/seq access) is assumed; cbor_deserialize is an uninterpreted function in the Verus units',
    'A9': 'A9 cbor-smol ignore() consumes exactly one well-formed definite-length item of any shape and nesting, terminates, never panics — PROVED by Verus on the pinned dependency source (unit c06_cbor_skipper); the one method left external (raw_deserialize_u32, the length-head reader) is validated by the Kani harness dep_k_length_heads',
    'A10': 'A10 parametricity: a generic default method can interact with Self only through the trait methods',
    'A11': 'A11 str / slice equality implies equal length (core)',
    'A12': 'A12 a UTF-8 scalar value is at most 4 bytes',
    'AV': 'vstd specifications of core items used by the extracted code (slice::is_empty, slice::split_first, Option::ok_or, Result, From/TryFrom/Into glue) are trusted as shipped with Verus 0.2026.09.13',
    'AK': 'Kani/CBMC model machine arithmetic and memory exactly (bit-vectors, 64-bit usize); Verus models u8..u64 with overflow checks; termination is not proved by Kani',
    'AS': 'the hand-written specification tables in /verif/spec and the spec functions in /verif/verus, /verif/kani are correct transcriptions of CTAP 2.1/2.2, WebAuthn and U2F raw message formats',
    'AX': 'mechanical extraction (lib/extract.py, lib/verus_engine.py) preserves the meaning of the extracted items; its drops and rewrites are listed under coverage.extraction',
}


def assumption_texts(ids):
    return [ASSUMPTIONS[i] for i in ids]


def scan_cheats(spec):
    """Mechanical scan for assume / external_body / assume_specification / admit / kani::stub /
    kani::assume in the contract and harness sources that this property uses."""
    files = [os.path.join(VERIF, 'verus', u.split('@')[0] + '.rs') for u in spec.get('verus', [])]
    files += glob.glob(os.path.join(VERIF, 'verus', 'inc', '*.rs'))
    if spec.get('kani'):
        mods = set()
        for h in spec['kani']:
            parts = h.name.split('::')
            mods.add(parts[-2])
        for m in mods:
            for cand in (m + '.rs',):
                p = os.path.join(VERIF, 'kani', cand)
                if os.path.exists(p):
                    files.append(p)
    out = []
    pat = re.compile(r'external_body|assume_specification|\badmit\(|\bassume\(|kani::stub\b|kani::assume')
    for f in files:
        if not os.path.exists(f):
            continue
        hits = {}
        for line in open(f):
            if line.strip().startswith('//'):
                continue
            for m in pat.finditer(line):
                hits[m.group(0)] = hits.get(m.group(0), 0) + 1
        if hits:
            out.append('scan %s: %s' % (os.path.relpath(f, VERIF), ', '.join('%s x%d' % kv for kv in sorted(hits.items()))))
    return out


def expected(pid, tier):
    try:
        d = json.load(open(os.path.join(VERIF, 'expected_obligations.json')))
        return int(d.get(pid, {}).get(tier, 1))
    except Exception:
        return 1


PROPS = {}

PROPS['C11'] = {
    'level': 'proof',
    'verus': ['c11_operation', 'c05_request_deserialize'],
    'kani': [
        H(ROOT + 'c11::c11_k_operation_table', ['operation::Operation::try_from', 'u8::from(Operation)', 'Operation::into_u8']),
        H(ROOT + 'c11::c11_k_vendor_range', ['operation::VendorOperation::try_from', 'u8::from(VendorOperation)']),
        H(ROOT + 'c11::c11_k_injective', ['operation::Operation::try_from']),
    ],
    'assumptions': ['A8', 'AV', 'AK', 'AS', 'AX'],
    'explanation': 'Unbounded proof: Verus verifies src/operation.rs verbatim against the CTAP 2.1 command table '
                   '(both directions, round trip, injectivity, exact recognised set) and verifies '
                   'ctap2::Request::deserialize (extracted on every run) against the decision table of the '
                   'property for all messages; loop-free Kani harnesses over all 256 bytes supply counterexamples.',
}

PROPS['C05'] = {
    'level': 'proof',
    'verus': ['c05_request_deserialize', 'c18_numeric_tables'],
    'kani': [],
    'assumptions': ['A1', 'A2', 'A8', 'AV', 'AS', 'AX'],
    'explanation': 'Unbounded proof of the repo side: Verus verifies `impl From<CtapMappingError> for Error` against the '
                   'three-code status table (cbor_smol::Error cut from the pinned dependency every run) and '
                   'Request::deserialize against the decision table for every message (empty => 0x12, unassigned / '
                   'unsupported byte => 0x01, decoder error => status table); required/optional declarations are '
                   'decided by Engine D; which cbor-smol error a malformed payload yields is the assumed contract A8.',
}

PROPS['C18'] = {
    'level': 'proof',
    'verus': ['c18_numeric_tables', 'c11_operation'],
    'kani': [],
    'assumptions': ['A2', 'A11', 'AK', 'AS', 'AX'],
    'explanation': 'Numeric identifier tables proved by Verus on the enums and TryFrom impls cut verbatim from /repo; '
                   'string tables and bitflags proved by loop-free / length-bounded Kani harnesses on the real functions.',
}

PROPS['C10'] = {
    'level': 'proof',
    'verus': ['c10_dispatch_ctap2', 'c10_dispatch_ctap1', 'c10_large_blobs_default'],
    'kani': [
        H(ROOT + 'c10::c10_k_ctap1_version', ['ctap1::Authenticator::call_ctap1', 'ctap1::Authenticator::version', 'Rpc::call (ctap1)']),
        H(ROOT + 'c10::c10_k_ctap2_large_blobs_not_implemented',
          ['ctap2::Authenticator::call_ctap2', 'ctap2::Authenticator::large_blobs (default)', 'Rpc::call (ctap2)'], timeout=1500),
    ],
    'assumptions': ['A10', 'AV', 'AK', 'AX'],
    'explanation': 'Unbounded proof: the real default methods call_ctap2 / call_ctap1 and both blanket Rpc::call impls '
                   '(extracted verbatim every run) are verified by Verus against a ghost call log and arbitrary handler '
                   'outcome functions: exactly one handler call, of the right command, with the request\'s own '
                   'parameters, result wrapped in the same-named variant or error unchanged.',
}

PROPS['C09'] = {
    'level': 'proof',
    'verus': ['c09_ctap1_response'],
    'kani': [],
    'assumptions': ['A4', 'AV', 'AK', 'AS', 'AX'],
    'explanation': 'Unbounded proof for every capacity S, pre-fill and part length: Verus verifies the real '
                   'ctap1::Response::serialize against the U2F raw message layout under the assumed heapless contracts '
                   '(push / extend_from_slice are all-or-nothing and append).',
}

PROPS['C07'] = {
    'level': 'proof',
    'verus': ['c07_authenticator_data'],
    'kani': [
        H(ROOT + 'c07::c07_k_flag_bits', ['ctap2::AuthenticatorDataFlags (bitflags!)']),
        H(ROOT + 'c07::c07_k_get_assertion_no_extensions', ['ctap2::AuthenticatorData::serialize (get_assertion flavour)'],
          kind='gc', bound='real heapless-bytes code; extensions: None'),
        H(ROOT + 'c07::c07_k_make_credential_tiny', ['ctap2::AuthenticatorData::serialize (make_credential flavour)',
          'make_credential::AttestedCredentialData::serialize'], kind='gc', bound='aaguid <= 2, credential id <= 2, key <= 1 bytes'),
        H(ROOT + 'c07::c07_k_make_credential_small', ['ctap2::AuthenticatorData::serialize (make_credential flavour)',
          'make_credential::AttestedCredentialData::serialize'], kind='gc', bound='aaguid <= 17, credential id <= 3, key <= 3 bytes',
          tier='thorough', timeout=1500),
        H(ROOT + 'c07::c07_k_capacity_frontier', ['ctap2::AuthenticatorData::serialize'], kind='gc',
          bound='five concrete length splits around 676/677', tier='thorough', timeout=3000),
    ],
    'assumptions': ['A4', 'A6', 'AV', 'AK', 'AS', 'AX'],
    'explanation': 'Unbounded proof over all lengths (incl. credential id 65535/65536), hashes, flags, counters: Verus '
                   'verifies AuthenticatorData::serialize and both SerializeAttestedCredentialData impls (verbatim) '
                   'against the WebAuthn layout; Kani harnesses run the real heapless-bytes code on small sizes to '
                   'validate the assumed container contracts end to end.',
}

PROPS['C08'] = {
    'level': 'proof',
    'verus': ['c18_numeric_tables', 'c08_apdu_request'],
    'kani': [
        H(ROOT + 'c08::c08_k_apdu_400', ['impl TryFrom<CommandView> for ctap1::Request'], kind='proof',
          bound=None, note='all APDUs up to 400 bytes; covers every decision boundary'),
        H(ROOT + 'c08::c08_k_data_window', ['iso7816::CommandView::try_from (dependency, checked)']),
        H(ROOT + 'c08::c08_k_owned_command_small', ['impl TryFrom<&Command<S>> for ctap1::Request'], kind='bounded',
          bound='S = 8'),
        H(ROOT + 'c08::c08_k_owned_command', ['impl TryFrom<&Command<S>> for ctap1::Request'], kind='bounded',
          bound='S = 72', tier='thorough', timeout=1500),
        H(ROOT + 'c08::c08_k_apdu_65600', ['impl TryFrom<CommandView> for ctap1::Request'], tier='thorough',
          timeout=3600, mem_gb=None, note='the whole short + extended APDU domain (about 25 minutes, 10+ GB in CBMC; no address-space limit: the Kani driver itself cannot allocate under one while it reads the CBMC result)'),
    ],
    'assumptions': ['AV', 'AK', 'AS', 'AX'],
    'explanation': 'Unbounded proof: Verus verifies the real `TryFrom<CommandView> for ctap1::Request` (unit c08_apdu_request) against the '
                   'decision table of the property for a data field of ANY length (class, instruction, control byte, exact lengths, '
                   'borrowed windows challenge / application / key handle), including absence of panics at the four `unwrap()` sites. '
                   'The iso7816 view is a ghost model there; that the view of a raw APDU is its Lc-delimited window and that the '
                   'U2F instruction bytes reach the parser as Unknown(b) is checked on the real iso7816 code by loop-free Kani '
                   'harnesses over every APDU up to 400 bytes (every decision boundary in all four length encodings), result compared '
                   'with the same table, borrowed outputs by pointer identity; the thorough tier runs the same harness over all '
                   'APDUs up to 65600 bytes = the whole ISO 7816 short + extended domain.',
}

_D_NOTE = ('Engine D: the effective wire tables are derived from the declarations in /repo/src (extracted by tools/declx on '
           'every run, cfg evaluated for all 8 feature configurations) under the assumed derive contracts and compared row '
           'by row with /verif/spec/wire_tables.json; every row is a named Verus obligation.')

PROPS['C01'] = {
    'level': 'proof',
    'verus': ['c05_request_deserialize'],
    'decl': True,
    'kani': [],
    'assumptions': ['A1', 'A2', 'A4', 'A5', 'A8', 'AV', 'AS', 'AX'],
    'explanation': 'Proof under assumed derive contracts: Verus proves the command switch of Request::deserialize for all '
                   'messages (each parameter-bearing byte hands exactly data[1..] to the decoder of its own command). ' + _D_NOTE,
}
PROPS['C02'] = {
    'level': 'proof',
    'decl': True,
    'kani': [],
    'assumptions': ['A1', 'A2', 'A3', 'A5', 'A6', 'A7', 'AS', 'AX'],
    'explanation': 'Proof under assumed derive contracts for every member subset, value and feature configuration. ' + _D_NOTE,
}
PROPS['C03'] = {
    'level': 'proof',
    'decl': True,
    'kani': [],
    'assumptions': ['A1', 'A2', 'A3', 'A5', 'A6', 'A7', 'AS', 'AX'],
    'explanation': 'Key order: for every pair of members of every serialised map type, in every feature configuration, '
                   'canon_lt(key_i, key_j) is a Verus obligation proved with an inductive lemma. ' + _D_NOTE,
}
PROPS['C06'] = {
    'level': 'proof',
    'decl': True,
    'kani': [],
    'assumptions': ['A2', 'A9', 'AS', 'AX'],
    'explanation': 'Proof of the repo-side precondition (unknown keys are routed to the skipper: plain derived Deserialize, no '
                   'deny_unknown_fields, no flatten/untagged, text-keyed) for the seven extensible host maps; the skipper itself '
                   '(cbor-smol ignore) is the assumed contract A9. ' + _D_NOTE,
}
PROPS['C12'] = {
    'level': 'proof',
    'decl': True,
    'kani': [],
    'assumptions': ['A4', 'A5', 'AS', 'AX'],
    'explanation': 'Capacity and integer-width obligations per bounded member against the limit table, constants of sizes.rs '
                   'evaluated per configuration; that heapless/cbor-smol enforce exactly the declared capacity is A4. ' + _D_NOTE,
}
PROPS['C15'] = {
    'level': 'proof',
    'decl': True,
    'kani': [],
    'assumptions': ['A1', 'A2', 'A3', 'A4', 'A5', 'AS', 'AX'],
    'explanation': 'Both directions are generated from the same declaration: obligations that both derives are present, no '
                   'member carries a one-directional attribute (except the rp icon), optionality agrees, numeric enums '
                   'derive both repr impls with the specified discriminants; canonical re-encoding rests on the C03 order '
                   'obligations. ' + _D_NOTE,
}
PROPS['C16'] = {
    'level': 'proof',
    'decl': True,
    'kani': [],
    'assumptions': ['A1', 'A2', 'A3', 'A5', 'AS', 'AX'],
    'explanation': 'For every struct and every pair of distinct effective tables among the 8 feature configurations: common '
                   'members have identical wire rows and the same relative order, members present in only one are feature-only '
                   'per the specification, constants other than LARGE_BLOB_MAX_FRAGMENT_LENGTH do not vary, no other feature '
                   'guards a member. ' + _D_NOTE,
}
PROPS['C05']['decl'] = True

# ---------------------------------------------------------------------------------------------
# Kani harness sets shared by several properties
GC_DECODE = [
    H(ROOT + 'gc::gc_k_large_blobs_request_decode', ['derived DeserializeIndexed for large_blobs::Request', 'ctap2::Request::deserialize'],
      kind='gc', bound='one concrete message shape, three symbolic leaves < 24'),
    H(ROOT + 'gc::gc_k_large_blobs_request_faults', ['derived DeserializeIndexed for large_blobs::Request', 'cbor-smol de.rs', 'ctap2::Request::deserialize'],
      kind='gc', bound='nine concrete fault messages'),
]
GC_OPTIONS = [
    H(ROOT + 'gc::gc_k_options_decode_and_unknown', ['derived Deserialize for AuthenticatorOptions', 'cbor-smol ignore()'],
      kind='gc', bound='two concrete option maps; one unknown member at three positions, six value shapes (concrete)', timeout=3600, tier='thorough'),
]
GC_CAP = [
    H(ROOT + 'gc::gc_k_param_type_capacity', ['derived Deserialize for PublicKeyCredentialParameters', 'heapless String<32>'],
      kind='gc', bound='concrete type strings of exactly 32 and 33 bytes', timeout=3600, tier='thorough'),
]
GC_ROUNDTRIP = [
    H(ROOT + 'gc::gc_k_roundtrip_small', ['derived (De)SerializeIndexed for large_blobs::Request', 'derived serde impls for AuthenticatorOptions'],
      kind='gc', bound='two concrete values', timeout=3600, tier='thorough'),
]
K_C03_HEADS = [
    H(ROOT + 'c03::c03_k_uint_heads', ['cbor-smol ser.rs (u64) — dependency contract A6, checked']),
    H(ROOT + 'c03::c03_k_int_heads', ['cbor-smol ser.rs (i64, i32) — dependency contract A6, checked']),
    H(ROOT + 'c03::c03_k_small_scalars', ['cbor-smol ser.rs (u8, bool, usize) — dependency contract A6, checked']),
    H(ROOT + 'c03::c03_k_string_heads_short', ['cbor-smol ser.rs (byte strings)'], kind='bounded', bound='lengths 0..=30'),
    H(ROOT + 'c03::c03_k_string_heads_255_256', ['cbor-smol ser.rs (byte strings)'], kind='bounded', bound='lengths 255 and 256',
      tier='thorough', timeout=1500),
]
K_FILTERED_SER = [
    H(WEB + 'c02_k_filtered_params_serialize', ['<FilteredPublicKeyCredentialParameters as Serialize>::serialize'], kind='bounded',
      bound='0..=2 entries, algorithms -1..-24', tier='thorough', timeout=1800),
]
K_C18_STRINGS = [
    H(ROOT + 'c18::c18_k_version_strings', ['Version::try_from(&str)', '<&str>::from(Version)'], kind='proof',
      note='all strings up to 20 bytes; longer ones cannot equal a <= 17 byte constant (A11)'),
    H(ROOT + 'c18::c18_k_extension_strings', ['Extension::try_from(&str)', '<&str>::from(Extension)']),
    H(ROOT + 'c18::c18_k_transport_and_format_strings', ['Transport::try_from(&str)', 'AttestationStatementFormat::try_from(&str)', 'From impls']),
    H(ROOT + 'c18::c18_k_permission_bits', ['client_pin::Permissions (bitflags!)']),
    H(ROOT + 'c07::c07_k_flag_bits', ['ctap2::AuthenticatorDataFlags (bitflags!)']),
]
K_C17 = [
    H(ROOT + 'c17::c17_k_client_pin_n5', ['ctap2::Response::serialize::<5>'], kind='bounded', bound='N = 5; ClientPin responses with scalar members (bodies 1..=8 bytes)'),
    H(ROOT + 'c17::c17_k_client_pin_n8', ['ctap2::Response::serialize::<8>'], kind='bounded', bound='N = 8', tier='thorough', timeout=1800),
    H(ROOT + 'c17::c17_k_parameterless', ['ctap2::Response::serialize (Reset / Selection / Vendor)'], kind='bounded', bound='N in {1, 16}'),
    H(ROOT + 'c17::c17_k_large_blobs_n3_n4', ['ctap2::Response::serialize (LargeBlobs)'], kind='bounded', bound='N in {3, 4}', tier='thorough', timeout=1800),
    H(ROOT + 'c17::c17_k_capacity_one_memberless_response', ['ctap2::Response::serialize::<1>'], kind='bounded', bound='N = 1, ClientPin response without members'),
    H(ROOT + 'c17::c17_k_client_pin_n1_n2_n3', ['ctap2::Response::serialize::<1|2|3>'], kind='bounded', bound='N in {1, 2, 3}', tier='thorough', timeout=1800),
    H(ROOT + 'c17::c17_k_client_pin_n16', ['ctap2::Response::serialize::<16>'], kind='bounded', bound='N = 16', tier='thorough', timeout=1800),
]
K_ICON_MB = H(WEB + 'c13_k_user_icon_multibyte_keep_or_drop', ['webauthn::deserialize_from_str_and_skip_if_too_long::<_, 128>'], kind='bounded',
              bound='non-ASCII texts (two-byte characters, optional ASCII tail) of 0..=299 bytes', timeout=1500)
K_ICON_MBC = H(WEB + 'c13_k_user_icon_small_capacities', ['webauthn::deserialize_from_str_and_skip_if_too_long::<_, 2|3|4>'], kind='bounded',
               bound='capacities 2, 3, 4; every valid UTF-8 text of up to 5 bytes')
K_NAME = H(WEB + 'c15_k_name_present_stays_present', ['webauthn::deserialize_from_str_and_truncate::<_, 64>'], kind='bounded',
           bound='absent, or ASCII text of 0..=70 bytes', timeout=1500)
K_C13 = [
    H(WEB + 'c13_k_is_utf8_char_boundary', ['webauthn::is_utf8_char_boundary']),
    H(WEB + 'c13_k_floor_char_boundary_contract', ['webauthn::floor_char_boundary'], kind='bounded',
      bound='exact UTF-8 precondition; strings <= 5 bytes; every index', timeout=1500),
    H(WEB + 'c13_k_floor_char_boundary_window', ['webauthn::floor_char_boundary'], kind='bounded',
      bound='window precondition (A12); strings <= 300 bytes; every index'),
    H(WEB + 'c13_k_truncate_uses_contract_l3', ['webauthn::truncate::<3> (against the contract of floor_char_boundary)'], kind='bounded',
      bound='strings <= 5 bytes'),
    H(WEB + 'c13_k_truncate_uses_contract_l1_l2_l4', ['webauthn::truncate::<1|2|4>'], kind='bounded', bound='strings <= 5 bytes', tier='thorough', timeout=1800),
    H(WEB + 'c13_k_truncate_64_window', ['webauthn::truncate::<64>', 'webauthn::floor_char_boundary'], kind='bounded',
      bound='texts <= 300 bytes, window precondition around the cut'),
    H(WEB + 'c13_k_user_icon_keep_or_drop', ['webauthn::deserialize_from_str_and_skip_if_too_long::<_, 128>'], kind='bounded',
      bound='ASCII texts of 0..=300 bytes', timeout=1500),
    H(WEB + 'c13_k_rp_icon_discarded', ['<webauthn::Icon as Deserialize>::deserialize'], kind='bounded', bound='ASCII texts of 0..=300 bytes'),
    K_ICON_MB,
    K_ICON_MBC,
    K_NAME,
    H(WEB + 'c13_k_floor_char_boundary_contract_8', ['webauthn::floor_char_boundary'], kind='bounded',
      bound='exact UTF-8 precondition; strings <= 8 bytes', tier='thorough', timeout=2400),
]
K_C14 = [
    H(WEB + 'c14_k_known_parameters', ['<KnownPublicKeyCredentialParameters as TryFrom<PublicKeyCredentialParameters>>::try_from'], kind='proof',
      note='every i32; type strings up to 12 bytes'),
    H(ROOT + 'c14::c14_k_filtered_params_upto3', ['<FilteredPublicKeyCredentialParameters as Deserialize>::deserialize (visit_seq loop)'],
      kind='bounded', bound='lists of 0..=3 symbolic entries'),
    H(ROOT + 'c14::c14_k_attestation_formats_upto3', ['<AttestationFormatsPreference as Deserialize>::deserialize (visit_seq loop)'],
      kind='bounded', bound='lists of 0..=3 symbolic entries'),
    H(ROOT + 'c14::c14_k_filtered_params_upto6', ['<FilteredPublicKeyCredentialParameters as Deserialize>::deserialize (visit_seq loop)'],
      kind='bounded', bound='lists of 0..=6 symbolic entries', tier='thorough', timeout=2400),
    H(ROOT + 'c14::c14_k_attestation_formats_upto5', ['<AttestationFormatsPreference as Deserialize>::deserialize (visit_seq loop)'],
      kind='bounded', bound='lists of 0..=5 symbolic entries', tier='thorough', timeout=2400),
]

PROPS['C13'] = {
    'level': 'model_checking',
    'decl': False,
    'kani': K_C13,
    'assumptions': ['A8', 'A12', 'AK', 'AS'],
    'explanation': 'Kani function contract on floor_char_boundary (result == the longest boundary prefix, no UB at '
                   'unwrap_unchecked) proved for all valid UTF-8 strings up to 6 (thorough: 8) bytes and, under the window '
                   'precondition, up to 300 bytes; truncate proved against that contract (not the body); icon handling proved for '
                   'all ASCII texts up to 300 bytes. Bounded in the string length, unbounded in index / capacity argument. '
                   'Rejection of ill-formed UTF-8 is the decoder\'s from_utf8 (A8).',
}
PROPS['C14'] = {
    'level': 'model_checking',
    'kani': K_C14,
    'assumptions': ['A2', 'A8', 'AK', 'AS'],
    'explanation': 'TryFrom for known parameters: complete over all i32 and type strings up to 12 bytes. The two filtering loops '
                   'are driven through the real Deserialize impls by a mock SeqAccess yielding symbolic entries: lists up to 3 '
                   '(thorough: 6 / 5) entries, result == first two known entries in order, unknown flag exact, never an error. '
                   'Bounded in the list length.',
}
PROPS['C17'] = {
    'level': 'model_checking',
    'kani': K_C17,
    'assumptions': ['A6', 'AK', 'AS'],
    'explanation': 'Contract of Response::serialize::<N> (complete message or [7F], independent of the pre-fill) checked by Kani for '
                   'a finite set of capacities N with bodies crossing each N; labelled bounded (N is a const generic).',
}
PROPS['C04'] = {
    'level': 'other',
    'decl': True,
    'verus': ['c05_request_deserialize'],
    'kani': K_C13 + K_C14[:3],
    'assumptions': ['A8', 'A12', 'AK', 'AV', 'AX'],
    'explanation': 'This family cannot decide C04 as quantified (any byte string through the whole decoder: symbolic bytes through '
                   'cbor-smol exhaust memory). Decided instead: every potential panic / UB / overflow site in the repo\'s own '
                   'decode-path functions (mechanical inventory, spec/panic_sites.json; a new site makes the check undecided) is '
                   'covered by a discharged contract: Request::deserialize prelude (Verus, all messages), floor_char_boundary / '
                   'truncate / icon helpers (Kani), the two bounded-push visitors (Kani). That cbor-smol, heapless and the '
                   'serde-generated visitors do not panic and terminate is the assumed contract A8.',
}
PROPS['C19'] = {
    'level': 'model_checking',
    'kani': [
        H(ARB + 'c19_k_arbitrary_str_4', ['arbitrary::arbitrary_str::<4>'], kind='bounded', bound='declared length 1000, 6 symbolic text bytes', features='arbitrary', timeout=1200),
        H(ARB + 'c19_k_arbitrary_str_2', ['arbitrary::arbitrary_str::<2>'], kind='bounded', bound='declared length 1000, 4 symbolic text bytes', features='arbitrary', timeout=2400, tier='thorough'),
        H(ARB + 'c19_k_arbitrary_str_straddling_char', ['arbitrary::arbitrary_str::<2>', 'arbitrary::arbitrary_str::<4>'], kind='bounded', bound='three concrete inputs: a 2-, 3-, 4-byte character straddling the capacity', features='arbitrary', timeout=1200),
        H(ARB + 'c19_k_arbitrary_str_4_short_input', ['arbitrary::arbitrary_str::<4>'], kind='bounded', bound='declared lengths 0, 3, 4, 5 with 0..=4 symbolic text bytes', features='arbitrary', tier='thorough', timeout=3600),
        H(ARB + 'c19_k_arbitrary_bytes', ['arbitrary::arbitrary_bytes::<4|32>'], kind='bounded', bound='inputs <= 16 bytes', features='arbitrary', timeout=1200),
        H(ARB + 'c19_k_arbitrary_byte_array', ['arbitrary::arbitrary_byte_array::<8>'], kind='bounded', bound='inputs <= 16 bytes', features='arbitrary', timeout=1200),
        H(ARB + 'c19_k_arbitrary_vec', ['arbitrary::arbitrary_vec::<u8, 3>'], kind='bounded', bound='inputs <= 16 bytes', features='arbitrary', timeout=1200),
        H(ARB + 'c19_k_arbitrary_str_64', ['arbitrary::arbitrary_str::<64>'], kind='bounded', bound='declared length 7, 8 symbolic text bytes', features='arbitrary', tier='thorough', timeout=2400),
        H(ARB + 'c19_k_ctap1_request', ['<ctap1::Request as Arbitrary>::arbitrary'], kind='bounded', bound='inputs <= 68 bytes', features='arbitrary', tier='thorough', timeout=2400),
    ],
    'assumptions': ['AK'],
    'explanation': 'Contracts on the private generator helpers (valid UTF-8 at the from_utf8_unchecked site, capacity at the unwrap '
                   'sites, readable bytes behind the pointer cast), bounded in the input length.',
}

K_LOSSY = [
    H(WEB + 'c13_k_user_icon_keep_or_drop', ['webauthn::deserialize_from_str_and_skip_if_too_long::<_, 128>'], kind='bounded',
      bound='ASCII texts of 0..=300 bytes', timeout=1500),
    H(WEB + 'c13_k_truncate_64_window', ['webauthn::truncate::<64>', 'webauthn::floor_char_boundary'], kind='bounded',
      bound='texts <= 300 bytes, window precondition around the cut'),
    H(WEB + 'c13_k_rp_icon_discarded', ['<webauthn::Icon as Deserialize>::deserialize'], kind='bounded', bound='ASCII texts of 0..=300 bytes'),
    H(WEB + 'c13_k_rp_icon_must_be_text', ['<webauthn::Icon as Deserialize>::deserialize'], kind='bounded', bound='integer / bool / bytes / null'),
    H(ROOT + 'c14::c14_k_filtered_params_upto3', ['<FilteredPublicKeyCredentialParameters as Deserialize>::deserialize (visit_seq loop)'],
      kind='bounded', bound='lists of 0..=3 symbolic entries'),
    H(ROOT + 'c14::c14_k_attestation_formats_upto3', ['<AttestationFormatsPreference as Deserialize>::deserialize (visit_seq loop)'],
      kind='bounded', bound='lists of 0..=3 symbolic entries'),
]
K_TYPE_CAP = [
    H(ROOT + 'c14::c14_k_filtered_params_type_capacity', ['<FilteredPublicKeyCredentialParameters as Deserialize>::deserialize', 'String<32> capacity of the entry type'],
      kind='bounded', bound='lists of 0..=1 entries, type strings of 10 or 33 bytes', timeout=3600, tier='thorough'),
]
K_MALFORMED = [
    H(ROOT + 'c14::c14_k_filtered_params_malformed_entry_anywhere', ['<FilteredPublicKeyCredentialParameters as Deserialize>::deserialize (visit_seq loop)', 'derived PublicKeyCredentialParameters decoder (required member `type`)'],
      kind='bounded', bound='lists of 0..=3 symbolic entries, each well-formed or lacking its required member `type`', timeout=2400, tier='thorough'),
    H(ROOT + 'c14::c14_k_filtered_params_malformed_behind_two_known', ['<FilteredPublicKeyCredentialParameters as Deserialize>::deserialize (visit_seq loop)', 'derived PublicKeyCredentialParameters decoder (required member `type`)'],
      kind='bounded', bound='one list shape: ES256, EdDSA, then an entry with any algorithm and no `type` member'),
]
K_FILTERED_LEN = [
    H(ROOT + 'c14::c03_k_filtered_params_serialize_length', ['<FilteredPublicKeyCredentialParameters as Serialize>::serialize'], kind='proof',
      note='all lists the type can hold (0..=2 entries over the two known algorithms, duplicates included), counting serializer'),
]
K_GNA = [
    H(ROOT + 'c02::c02_k_get_next_assertion_like_get_assertion', ['ctap2::Response::serialize::<48> (GetAssertion | GetNextAssertion arm)'],
      kind='bounded', bound='one concrete shape of the fixed members, symbolic optional scalars, N = 48', timeout=3600, tier='thorough'),
]
PROPS['C01']['kani'] = GC_DECODE + GC_OPTIONS + K_LOSSY + K_TYPE_CAP + K_MALFORMED + [K_NAME]
PROPS['C02']['kani'] = K_C17[:5] + K_GNA + K_FILTERED_LEN + K_FILTERED_SER + GC_ROUNDTRIP
PROPS['C03']['kani'] = K_C03_HEADS + K_FILTERED_LEN + K_FILTERED_SER
PROPS['C05']['kani'] = GC_DECODE[1:] + K_LOSSY[3:4] + K_MALFORMED
PROPS['C06']['kani'] = GC_OPTIONS
PROPS['C12']['kani'] = GC_CAP + K_TYPE_CAP + K_LOSSY[0:1] + [K_ICON_MB, K_ICON_MBC]
PROPS['C15']['kani'] = GC_ROUNDTRIP + K_C18_STRINGS[:3]
PROPS['C18']['kani'] = K_C18_STRINGS

PROPS['C13']['kani'] = K_C13 + K_LOSSY[3:4]
PROPS['C14']['kani'] = K_C14 + K_TYPE_CAP + K_MALFORMED
PROPS['C04']['kani'] = K_C13 + K_C14[:3] + K_LOSSY[3:4]
PROPS['C09']['kani'] = [
    H(ROOT + 'c09::c09_k_authenticate_small', ['ctap1::Response::serialize::<80> (Authenticate)'], kind='gc',
      bound='S = 80, symbolic pre-fill 0..=80, signature <= 2 bytes'),
    H(ROOT + 'c09::c09_k_register_small', ['ctap1::Response::serialize::<80> (Register)'], kind='gc',
      bound='S = 80, symbolic pre-fill, key handle / certificate / signature <= 2 bytes', timeout=1800, tier='thorough'),
]
PROPS['C07']['kani'] = PROPS['C07']['kani'] + [
    H(ROOT + 'c07::c07_k_extensions_present_iff_supplied', ['ctap2::AuthenticatorData::serialize (extension outputs)'], kind='gc',
      bound='three concrete extension shapes, symbolic hash / flags / counter'),
]

# Response::serialize is proved by Verus for every capacity (unit c17_response_serialize); the Kani harnesses stay as
# syntax-agnostic backstops on the real monomorphised code and carry the known finding.
PROPS['C17']['level'] = 'proof'
PROPS['C17']['verus'] = ['c17_response_serialize']
PROPS['C17']['assumptions'] = ['A4', 'A6', 'AV', 'AK', 'AS', 'AX']
PROPS['C17']['explanation'] = ('Unbounded proof for every capacity N >= 1, every response kind and every previous buffer content: Verus verifies '
    'the real Response::serialize (verbatim) against "complete message or exactly [7F]", under the assumed contracts of heapless '
    'resize_default / split_first_mut and of cbor_serialize (writes its encoding iff it fits). The single known finding (N == 1 and a '
    'member-less map body) is excluded by the precondition and demonstrated by its own Kani harness. Kani harnesses for small N run '
    'the real monomorphised code.')
PROPS['C02']['verus'] = ['c17_response_serialize']
PROPS['C15']['kani'] = PROPS['C15']['kani'] + K_LOSSY[0:1] + K_LOSSY[4:5] + [K_NAME]
PROPS['C16']['kani'] = []

# bounded validation of the assumed dependency contracts on the real dependency code
DEP_CONTAINERS = [
    H(ROOT + 'dep::dep_k_heapless_vec_contract', ['heapless::Vec<u8, 4>::{push, extend_from_slice, resize_default, truncate, capacity} (dependency, validated)'],
      kind='gc', bound='capacity 4, symbolic contents and arguments'),
    H(ROOT + 'dep::dep_k_bytes_contract', ['heapless_bytes::Bytes<4>::{new, push, extend_from_slice, deref} (dependency, validated)'],
      kind='gc', bound='capacity 4, symbolic contents'),
]
DEP_CBOR = [
    H(ROOT + 'dep::dep_k_cbor_serialize_contract', ['cbor_smol::cbor_serialize (dependency, validated)'], kind='gc',
      bound='u32 values, buffers of 0..=6 bytes'),
]
DEP_DECODE_CAP = [
    H(ROOT + 'dep::dep_k_decode_capacity', ['<Bytes<4> as Deserialize>, <String<4> as Deserialize> (A4, validated)'], kind='gc',
      bound='capacity 4, inputs of 0..=6 bytes'),
]
PROPS['C07']['kani'] = PROPS['C07']['kani'] + DEP_CONTAINERS
PROPS['C09']['kani'] = PROPS['C09']['kani'] + DEP_CONTAINERS
PROPS['C17']['kani'] = PROPS['C17']['kani'] + DEP_CONTAINERS + DEP_CBOR
PROPS['C12']['kani'] = PROPS['C12']['kani'] + DEP_DECODE_CAP

PROPS['C18']['decl'] = True

DEP_LENHEAD = [
    H(ROOT + 'dep::dep_k_length_heads', ['cbor_smol::de::Deserializer::raw_deserialize_u32 (dependency; contract `len_head` of unit c06_cbor_skipper, validated through the public decoder)'],
      kind='gc', bound='all 5-byte inputs as u32 (complete for major type 0); byte strings up to 44 bytes'),
]
PROPS['C06']['verus'] = ['c06_cbor_skipper']
PROPS['C06']['kani'] = PROPS['C06']['kani'] + DEP_LENHEAD
PROPS['C06']['explanation'] = ('Unbounded proof in two halves: (1) Engine D/X: for the seven extensible host maps the generated decoders route every key '
    'outside the exact specification key set to `deserialize_ignored_any` (no deny_unknown_fields, plain derived Deserialize, `__ignore` arm '
    'present in the macro expansion); (2) Verus proves on the pinned cbor-smol source that the skipper `ignore()` consumes exactly one '
    'well-formed definite-length data item of any shape and nesting depth (spec function `rest`, RFC 8949 grammar), terminates and cannot '
    'panic, and that appending the remaining members after the unknown value leaves exactly them (lemma ob_C06_unknown_value_is_skipped_exactly).')
PROPS['C04']['verus'] = PROPS['C04']['verus'] + ['c06_cbor_skipper']

# the two filtering loops are proved for lists of any length by Verus (unit c14_filter_loops); the Kani harnesses stay as
# syntax-agnostic backstops on the real monomorphised code (mock SeqAccess, bounded list length)
PROPS['C14']['level'] = 'proof'
PROPS['C14']['verus'] = ['c14_filter_loops']
PROPS['C14']['assumptions'] = ['A2', 'A4', 'A8', 'AV', 'AK', 'AS', 'AX']
PROPS['C14']['explanation'] = ('Unbounded in the list length: Verus verifies the two hand-written visit_seq loops (verbatim; while-let unfolded to '
    'loop/match/break, loop invariant injected) against a left-to-right specification: the kept values are the first two known entries in '
    'order, the unknown flag is set iff some other format occurred, the whole list is consumed, and decoding fails only if the underlying '
    'sequence fails. The element classifiers are uninterpreted there and proved by Kani: TryFrom for known parameters over all i32 and '
    'type strings up to 12 bytes, the attestation-format spellings over all strings up to 20 bytes.')
PROPS['C14']['kani'] = PROPS['C14']['kani'] + [K_C18_STRINGS[2]]
PROPS['C01']['verus'] = PROPS['C01']['verus'] + ['c14_filter_loops']
PROPS['C04']['verus'] = PROPS['C04']['verus'] + ['c14_filter_loops']
PROPS['C15']['verus'] = ['c14_filter_loops']

PROPS['C13']['decl'] = True
PROPS['C05']['verus'] = PROPS['C05']['verus'] + ['c14_filter_loops']
PROPS['C10']['kani'] = PROPS['C10']['kani'] + [
    H(ROOT + 'c10::c10_k_ctap1_version_overridden', ['ctap1::Authenticator::call_ctap1 (Version arm)', 'Rpc::call (ctap1)'], kind='proof',
      note='every six-byte value returned by an overriding version()'),
]
PROPS['C17']['kani'] = PROPS['C17']['kani'] + K_FILTERED_LEN
PROPS['C12']['kani'] = PROPS['C12']['kani'] + [
    H(ROOT + 'dep::dep_k_int_ranges', ['cbor-smol deserialize_u8 / deserialize_i32 (dependency, A8: integer ranges, validated)'], kind='gc',
      bound='all 3-byte inputs as u8, all 5-byte inputs as i32 (complete for heads up to 4 value bytes)'),
]

PROPS['C14']['decl'] = True

# the two lossy text helpers of src/webauthn.rs and the heapless String code under them are proved by Verus for texts of any length
# (unit c13_text_helpers); the container decoders of heapless / heapless-bytes for inputs of any length (unit dep_container_decoders)
for _p in ('C13', 'C15', 'C04', 'C01'):
    PROPS[_p]['verus'] = PROPS[_p].get('verus', []) + ['c13_text_helpers']
for _p in ('C12', 'C05', 'C01', 'C04'):
    PROPS[_p]['verus'] = PROPS[_p].get('verus', []) + ['dep_container_decoders']
PROPS['C13']['assumptions'] = ['A4', 'A8', 'A12', 'AU', 'AV', 'AK', 'AS', 'AX']
PROPS['C13']['level'] = 'proof'
ASSUMPTIONS['AU'] = ('AU two facts about UTF-8 itself, assumed as axioms in unit c13_text_helpers: the bytes of a `&str` never contain four consecutive '
    'continuation bytes (10xxxxxx), and the first byte of a non-empty `&str` is not a continuation byte (validated on bounded strings by the Kani '
    'harnesses c13_k_floor_char_boundary_*, which build their strings with core::str::from_utf8); plus the trusted wrappers slice_rposition__ '
    '(core Iterator::rposition on a slice), str_prefix__ (core `&s[..k]`, precondition = its panic condition) and the assume_specification of '
    'Option::unwrap_unchecked (precondition `is Some`)')
PROPS['C13']['explanation'] = ('Verus, texts of ANY length and every capacity L / index: the REAL bodies of truncate, floor_char_boundary and is_utf8_char_boundary '
    '(cut from src/webauthn.rs on every run; rewrites: s.len() -> s.as_bytes().len(), X.iter().rposition(|b| P) -> slice_rposition__(&X, pred__), &s[..k] -> '
    'str_prefix__(s, k)) are proved against the property\'s own contract: the result is the longest prefix of at most L bytes that ends on a character '
    'boundary (a text that fits is unchanged - lemma ob_C13_fitting_text_unchanged); the unsafe unwrap_unchecked (needs Some), the slicing &s[..split] (needs a '
    'character boundary) and push_str(..).unwrap() (needs <= L bytes) are discharged as obligations, under the two UTF-8 axioms AU. '
    'deserialize_from_str_and_skip_if_too_long keeps a text of at most L bytes verbatim and reports a longer one absent, never an error; '
    'deserialize_from_str_and_truncate maps absent to absent and a present text to truncate(text); the heapless String::{new, push_str, from_str} code under '
    'them is extracted from the pinned dependency and verified against the Vec::extend_from_slice contract. Kani (bounded in the text length, labelled so) '
    're-checks floor_char_boundary / truncate / the helpers on the real monomorphised code and supplies counterexamples and the validation of AU. '
    'Rejection of ill-formed UTF-8 is the decoder\'s from_utf8 (A8).')
ASSUMPTIONS['A4'] = ('A4 heapless 0.7 / heapless-bytes 0.3 container decoders accept <= N, reject > N and copy verbatim - PROVED by Verus on the pinned '
    'dependency sources for inputs of any length (unit dep_container_decoders: Vec<T, N>::visit_seq, Bytes<N>::visit_bytes, String<N>::visit_str, '
    'String::push_str / from_str) against the contracts of Vec::{new, push, extend_from_slice, capacity}, which are assumed in Verus and validated '
    'on the real heapless code by the Kani harness dep_k_heapless_vec_contract (bounded); serde_bytes and the array impls of serde stay assumed')

# the clamping generators of src/arbitrary.rs are proved by Verus for inputs of any length (unit c19_arbitrary_helpers); the level of C19 stays
# model_checking because arbitrary_vec (closure over arbitrary_loop), arbitrary_byte_array (raw pointer cast) and the derived generators are bounded Kani only
PROPS['C19']['verus'] = ['c19_arbitrary_helpers']
PROPS['C19']['assumptions'] = ['AR', 'AV', 'AK', 'AX']
ASSUMPTIONS['AR'] = ('AR contracts assumed in unit c19_arbitrary_helpers: arbitrary::Unstructured::{bytes, peek_bytes} over a ghost "bytes not yet consumed" '
    '(read off arbitrary 1.x), usize::arbitrary = any value, core::str::{from_utf8, Utf8Error::valid_up_to, from_utf8_unchecked} over an uninterpreted '
    'well-formedness predicate, heapless `<&str as TryInto<String<N>>>::try_into(..).unwrap()` panics exactly beyond N bytes, heapless-bytes '
    'Bytes::from_slice fails exactly beyond N bytes')
PROPS['C19']['explanation'] = ('Two layers. (1) Verus, input byte strings of ANY length and every capacity N: the real bodies of arbitrary_str, arbitrary_bytes and '
    'arbitrary_key (cut from src/arbitrary.rs on every run) either report an error or yield a value within capacity whose text is well-formed UTF-8; the '
    'unsafe from_utf8_unchecked (needs well-formed bytes) and both unwraps (need <= N bytes) are discharged as proof obligations under AR. '
    '(2) Kani, bounded in the input length (labelled so): the same helpers plus arbitrary_vec, arbitrary_byte_array (pointer cast) and the CTAP1 request '
    'generator on the real monomorphised code. The derived generators of the large request types are out of reach (type too large for CBMC); hence level model_checking.')

# the four string identifier tables (both directions) are proved by Verus for strings of any length (unit c18_string_tables)
for _p in ('C18', 'C15'):
    PROPS[_p]['verus'] = PROPS[_p].get('verus', []) + ['c18_string_tables']

# both element classifiers of the C14 filters are proved by Verus on the verbatim code (units c14_param_classifier, c18_string_tables)
PROPS['C14']['verus'] = PROPS['C14'].get('verus', []) + ['c14_param_classifier', 'c18_string_tables']

# the response builders (required members carried over, every optional member unset) are proved by Verus on the verbatim code (unit c02_builders)
PROPS['C02']['verus'] = PROPS['C02'].get('verus', []) + ['c02_builders']

# units whose extracted code contains (or may come to contain) `#[cfg(feature = ..)]` items are verified a second time with every wire-relevant
# feature switched on (`<unit>@allfeatures`, verus --cfg): the string tables and the builders must satisfy the same contract in both extreme configurations
for _p in ('C18', 'C15', 'C16'):
    PROPS[_p]['verus'] = [u for u in PROPS[_p].get('verus', []) if u != 'c18_string_tables'] + ['c18_string_tables', 'c18_string_tables@allfeatures']
PROPS['C02']['verus'] = PROPS['C02']['verus'] + ['c02_builders@allfeatures']


# Harnesses that were written and calibrated but cannot be discharged in this sandbox (CBMC exceeds the 24 GB address-space limit
# or one hour, alone on the machine); they stay in /verif/kani for reference and are run by no check.  What they were meant to add is
# covered deductively elsewhere (named per entry).
INFEASIBLE = {
    'gc_k_options_decode_and_unknown': 'text-keyed derived decoder through cbor-smol: CBMC out of memory (24 GB); Engine X checks the generated decoder on the macro expansion, unit c06_cbor_skipper proves the skipper',
    'gc_k_param_type_capacity': 'text-keyed derived decoder through cbor-smol: no result within the limits; unit dep_container_decoders proves the String<N> / Vec<T, N> decoders',
    'gc_k_roundtrip_small': 'encode + decode through cbor-smol in one harness: CBMC out of memory (24 GB)',
    'c02_k_get_next_assertion_like_get_assertion': 'two full get_assertion::Response encodings in one harness: no result within the limits; unit c17_response_serialize proves both arms call the same encoder on the same value',
    'c19_k_arbitrary_str_straddling_char': 'written for seed C19-5 (three concrete inputs with a character straddling the capacity) but not calibrated before the end of the last session: more than 6 minutes under load without a verdict on either tree, so it is run by no check; the Verus unit c19_arbitrary_helpers proves the statement for the current body, and the symbolic harness c19_k_arbitrary_str_2 (384 s on the unchanged tree) runs in the thorough tier',
    'c02_k_filtered_params_serialize': 'real cbor-smol serializer in the loop: CBMC out of memory (24 GB); the counting mock Serializer harness c03_k_filtered_params_serialize_length covers the hand-written impl',
}
for _p in PROPS.values():
    if _p.get('kani'):
        _p['kani'] = [h for h in _p['kani'] if h.name.split('::')[-1] not in INFEASIBLE]
