"""Which obligations decide which property."""
import glob
import json
import os
import re

from common import VERIF
from kani_engine import H

ROOT = 'verif_proofs::'
WEB = 'webauthn::verif_proofs::'
ARB = 'arbitrary::verif_proofs::'

ASSUMPTIONS = {
    'A1': 'A1 serde-indexed 0.1.1: key = position + offset; emitted in declaration order; a member is skipped iff its skip_serializing_if predicate holds; decoding requires exactly the members without skip_serializing_if; duplicate or unknown index is an error (assumed contract of the derive macro; validated boundedly by the GC harnesses)',
    'A2': 'A2 serde_derive 1.0: text-keyed fields in declaration order under their renamed keys; default / missing_field; unknown keys go to deserialize_ignored_any unless deny_unknown_fields; serde_repr maps discriminants both ways and rejects other numbers (assumed)',
    'A3': 'A3 derived Serialize impls always announce definite lengths (assumed)',
    'A4': 'A4 heapless 0.7 / heapless-bytes 0.3 / serde_bytes Deserialize impls accept <= N, reject > N and copy verbatim (assumed)',
    'A5': 'A5 #[cfg] on a field is evaluated before any derive macro sees the field list (rustc)',
    'A6': 'A6 cbor-smol ser.rs emits shortest-form heads and each serde call appends exactly its item (checked for scalars by Kani harnesses; otherwise assumed)',
    'A7': 'A7 cosey 0.3 emits COSE key members in the order 1, 3, -1, -2, -3 (assumed)',
    'A8': 'A8 cbor-smol de.rs + serde-generated visitors: no panic, terminate, error taxonomy (SerdeMissingField for a missing required member, other variants for malformed input) (assumed; cbor_deserialize is an uninterpreted function in the Verus units)',
    'A9': 'A9 cbor-smol ignore() consumes exactly one well-formed item (assumed)',
    'A10': 'A10 parametricity: a generic default method can interact with Self only through the trait methods',
    'A11': 'A11 str / slice equality implies equal length (core)',
    'A12': 'A12 a UTF-8 scalar value is at most 4 bytes',
    'AV': 'vstd specifications of core items used by the extracted code (slice::is_empty, slice::split_first, Option::ok_or, Result, From/TryFrom/Into glue) are trusted as shipped with Verus 0.2026.09.13',
    'AK': 'Kani/CBMC model machine arithmetic and memory exactly (bit-vectors, 64-bit usize); Verus models u8..u64 with overflow checks; termination is not proved by Kani',
    'AS': 'the hand-written specification tables in /verif/spec and the spec functions in /verif/verus, /verif/kani are correct transcriptions of CTAP 2.1/2.2, WebAuthn and U2F raw message formats',
    'AX': 'mechanical extraction (lib/extract.py, lib/verus_engine.py) preserves the meaning of the extracted items; its drops and rewrites are listed under coverage.extraction',
}


def assumption_texts(ids):
    return [ASSUMPTIONS[i] for i in ids]


def scan_cheats(spec):
    """Mechanical scan for assume / external_body / assume_specification / admit / kani::stub /
    kani::assume in the contract and harness sources that this property uses."""
    files = [os.path.join(VERIF, 'verus', u + '.rs') for u in spec.get('verus', [])]
    files += glob.glob(os.path.join(VERIF, 'verus', 'inc', '*.rs'))
    if spec.get('kani'):
        mods = set()
        for h in spec['kani']:
            parts = h.name.split('::')
            mods.add(parts[-2])
        for m in mods:
            for cand in (m + '.rs',):
                p = os.path.join(VERIF, 'kani', cand)
                if os.path.exists(p):
                    files.append(p)
    out = []
    pat = re.compile(r'external_body|assume_specification|\badmit\(|\bassume\(|kani::stub\b|kani::assume')
    for f in files:
        if not os.path.exists(f):
            continue
        hits = {}
        for line in open(f):
            if line.strip().startswith('//'):
                continue
            for m in pat.finditer(line):
                hits[m.group(0)] = hits.get(m.group(0), 0) + 1
        if hits:
            out.append('scan %s: %s' % (os.path.relpath(f, VERIF), ', '.join('%s x%d' % kv for kv in sorted(hits.items()))))
    return out


def expected(pid, tier):
    try:
        d = json.load(open(os.path.join(VERIF, 'expected_obligations.json')))
        return int(d.get(pid, {}).get(tier, 1))
    except Exception:
        return 1


PROPS = {}

PROPS['C11'] = {
    'level': 'proof',
    'verus': ['c11_operation', 'c05_request_deserialize'],
    'kani': [
        H(ROOT + 'c11::c11_k_operation_table', ['operation::Operation::try_from', 'u8::from(Operation)', 'Operation::into_u8']),
        H(ROOT + 'c11::c11_k_vendor_range', ['operation::VendorOperation::try_from', 'u8::from(VendorOperation)']),
        H(ROOT + 'c11::c11_k_injective', ['operation::Operation::try_from']),
    ],
    'assumptions': ['A8', 'AV', 'AK', 'AS', 'AX'],
    'explanation': 'Unbounded proof: Verus verifies src/operation.rs verbatim against the CTAP 2.1 command table '
                   '(both directions, round trip, injectivity, exact recognised set) and verifies '
                   'ctap2::Request::deserialize (extracted on every run) against the decision table of the '
                   'property for all messages; loop-free Kani harnesses over all 256 bytes supply counterexamples.',
}
