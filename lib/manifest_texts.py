HOOK_COMMITS = ['eae2285']
NOT_APPLICABLE = {}
NOTES = ('Contract-based deductive verification of the real code: Verus on items extracted verbatim from /repo on every run '
         '(Engine V), Verus on declaration tables extracted with syn (Engine D), Kani/CBMC harnesses compiled into the real '
         'crate through cfg(kani) hooks (Engine K). Exit 2 = undecided (never an alarm). See DESIGN.md.')
ENGINES = [
    {'name': 'V', 'path': '/verif/lib/verus_engine.py', 'serves_properties': ['C01', 'C05', 'C11', 'C18'],
     'kind_free_text': 'Verus 0.2026.09.13 single-file verification of functions cut verbatim from /repo/src (and enums cut from pinned dependencies) with contracts from /verif/verus'},
    {'name': 'K', 'path': '/verif/lib/kani_engine.py', 'serves_properties': ['C11'],
     'kind_free_text': 'Kani 0.68 / CBMC 6.11 harnesses (assume-pre / assert-post contracts, function contracts) on the real crate built from /repo'},
]
CHECKS = {
 'C11': {
  'engine': 'V+K',
  'technique': 'deductive proof (Verus) of src/operation.rs and ctap2::Request::deserialize against spec tables; loop-free Kani harnesses over all 256 bytes for counterexamples',
  'design_ref': 'DESIGN.md §5 C11',
  'text': 'Unbounded proof for all 256 bytes and all message tails: Verus verifies the real conversion functions (extracted verbatim every run) against the CTAP 2.1 command table incl. round trip, injectivity and the exact recognised set, and verifies Request::deserialize against the decision table of the property for every message; Kani re-proves the tables exhaustively and supplies replayable counterexamples.',
  'note': 'cbor_deserialize is an uninterpreted function (only reached for parameter-bearing commands); vstd specs of slice::split_first / Option::ok_or trusted; extraction applies three stated desugarings to Request::deserialize (reference pattern, map_err+? unfolding).',
 },
}
