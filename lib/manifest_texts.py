HOOK_COMMITS = ['eae2285']
NOT_APPLICABLE = {}
NOTES = ('Contract-based deductive verification of the real code. Engine V: Verus on items extracted verbatim from /repo on '
         'every run (contracts in /verif/verus). Engine D: Verus obligations over the declarations extracted by tools/declx '
         '(syn), under assumed derive-macro contracts. Engine K: Kani/CBMC harnesses compiled into the real crate through '
         'cfg(kani) hooks. Exit 0 all obligations discharged; exit 1 + VIOLATION line an obligation failed; exit 2 undecided '
         '(lost anchor, construct outside the verifier subset, timeout) — never an alarm. Three genuine defects were found and '
         'repaired with fix: commits in /repo (f3eb05b, da42d3a, e13e3b9); one is recorded as a known finding (known_findings.txt). '
         'See DESIGN.md.')
ENGINES = [
    {'name': 'V', 'path': '/verif/lib/verus_engine.py',
     'serves_properties': ['C01', 'C02', 'C04', 'C05', 'C06', 'C07', 'C08', 'C09', 'C10', 'C11', 'C12', 'C13', 'C14', 'C15', 'C16', 'C17', 'C18', 'C19'],
     'kind_free_text': 'Verus 0.2026.09.13 single-file deductive verification of functions cut verbatim from /repo/src (and functions '
                       'cut from the pinned dependency sources: cbor-smol skipper, heapless / heapless-bytes decoders); contracts (spec functions, *SpecImpl blocks, injected ensures, ghost state, lemmas) in /verif/verus'},
    {'name': 'D', 'path': '/verif/lib/decl_engine.py',
     'serves_properties': ['C01', 'C02', 'C03', 'C04', 'C05', 'C06', 'C12', 'C15', 'C16'],
     'kind_free_text': 'declaration contracts: tools/declx (syn) dumps the struct/enum declarations, the engine evaluates cfg for the 8 '
                       'feature configurations and generates one named Verus obligation per wire row / key pair / configuration pair '
                       'against /verif/spec/wire_tables.json'},
    {'name': 'K', 'path': '/verif/lib/kani_engine.py',
     'serves_properties': ['C01', 'C02', 'C03', 'C04', 'C05', 'C06', 'C07', 'C08', 'C10', 'C11', 'C12', 'C13', 'C14', 'C15', 'C17', 'C18', 'C19'],
     'kind_free_text': 'Kani 0.68 / CBMC 6.11 harnesses (assume-pre / assert-post contracts, proof_for_contract, contract-as-stub) on the '
                       'real crate built from /repo with cfg(kani); counterexamples replayed with cargo kani playback'},
]

_D = ' Engine D rows are proofs under the assumed derive-macro contracts A1-A5 (validated boundedly by the gc_k_* harnesses).'

CHECKS = {
 'C01': {
  'engine': 'V+D+K', 'design_ref': 'DESIGN.md §5 C01, §10',
  'technique': 'Verus proof of the command switch of Request::deserialize; Verus-discharged declaration obligations (key, optionality, type, lossy markers) for all 8 feature configurations; bounded Kani validation of the derive contracts',
  'text': 'For every message the command switch is proved (Verus, unbounded) to hand exactly data[1..] to the decoder of the right command and wrap its result in the same-named variant. That each parameter is decoded under its specification key, with the right optionality and type, is proved per member and per feature configuration on the declarations that generate the decoders. Tests cannot reach all subsets/configurations; this does, at the price of assuming the derive macros\' contracts.',
  'note': 'cbor_deserialize uninterpreted (A8); serde-indexed / serde_derive / heapless semantics assumed (A1, A2, A4, A5); spec tables hand-transcribed (AS).' + _D,
 },
 'C02': {
  'engine': 'D+K', 'design_ref': 'DESIGN.md §5 C02',
  'technique': 'Verus-discharged declaration obligations per response member (key, type, absent-never-null, map shape) in all 8 configurations; Verus proof of the glue Response::serialize (status byte, [A0] collapse, GetNextAssertion == GetAssertion) for every capacity; Verus proof of the get_assertion / make_credential / get_info ResponseBuilder::build bodies and of CtapOptions::default (required members unchanged, every optional member unset, option defaults rk=false up=true), in the default and the all-features configuration; Kani byte-level checks for small responses',
  'text': 'Per member of every response struct and nested map, in every feature configuration: emitted under its specification key, Option members skipped with Option::is_none (absent, never null), plain members always emitted, string enums emitted as their spelling, attestation statements untagged. The glue (status byte, [A0] collapse, GetNextAssertion arm) is checked by Kani on the real Response::serialize for small N (bounded).',
  'note': 'derive contracts A1-A3, A5 assumed; cbor-smol scalar heads checked (A6), COSE key order assumed (A7); byte-level equality of the large responses is out of CBMC\'s reach. One known finding (capacity 1).' + _D,
 },
 'C03': {
  'engine': 'D+K', 'design_ref': 'DESIGN.md §5 C03, §7',
  'technique': 'Verus proof of canon_lt(key_i, key_j) for every pair of members of every serialised map in every configuration (inductive lemma); loop-free Kani proofs that cbor-smol emits shortest-form heads for all integers',
  'text': 'Key order is decided exactly as the property quantifies it: every pair of members, every map type, all 8 configurations (this is what found the two get-info-full ordering defects, now fixed). Shortest-form integers/booleans are proved for all u64/i64/i32/u8/usize values on the real cbor-smol serializer; string heads for lengths 0..=30 (thorough: 255/256).',
  'note': 'definite lengths / no tags / no floats of derived code rest on A3; COSE key member order A7 assumed.' + _D,
 },
 'C04': {
  'engine': 'V+D+K', 'design_ref': 'DESIGN.md §5 C04, §8',
  'technique': 'mechanical inventory of panic/UB/overflow sites in the repo\'s decode path, each covered by a discharged Verus or Kani contract; dependency decoders assumed (A8)',
  'text': 'Not decided as quantified (symbolic bytes through the whole CBOR decoder are out of reach for CBMC and Verus cannot see cbor-smol). Decided: every site in /repo\'s own decode-path code that could panic, index out of bounds, overflow or violate an unsafe precondition is under a discharged contract (this found the icon panic, now fixed); a new site makes the check undecided.',
  'note': 'cbor-smol de.rs, serde-generated visitors, heapless Deserialize impls: no panic + termination assumed (A8); determinism and termination not separately verified.',
 },
 'C05': {
  'engine': 'V+D+K', 'design_ref': 'DESIGN.md §5 C05',
  'technique': 'Verus proof of From<CtapMappingError> for Error and of Request::deserialize against the three-code decision table; declaration obligations required<=>spec for every request member',
  'text': 'Unbounded proof that every rejected request reports 0x01, 0x12 or 0x14 by the fault table (all cbor_smol::Error variants, enum cut from the pinned dependency each run), that empty / unassigned / unsupported inputs give the stated code whatever follows, and that a parameter is required by the decoder exactly when the specification requires it.',
  'note': 'which cbor-smol error a malformed payload produces is the assumed contract A8 (validated on nine concrete fault messages by gc_k_large_blobs_request_faults).' + _D,
 },
 'C06': {
  'engine': 'V+D+X+K', 'design_ref': 'DESIGN.md §5 C06, §10.4d',
  'technique': 'Verus proof of the item skipper of the pinned cbor-smol (Deserializer::ignore and its helpers, verbatim from the registry) against the RFC 8949 definite-length grammar, incl. termination; declaration + macro-expansion obligations that unknown keys are routed to it',
  'text': 'Unbounded: whatever well-formed definite-length value an unknown member holds (any type, any nesting, any size), the skipper consumes exactly that value and nothing else, terminates and cannot panic (Verus, dependency source re-extracted every run); and for the seven extensible maps every key outside the exact specification key set reaches the skipper (declaration obligations + `__ignore` arm in the real macro expansion).',
  'note': 'raw_deserialize_u32 (length-head reader) is external_body with contract len_head, validated by Kani through the public decoder; the serde runtime dispatching deserialize_ignored_any is assumed; usize is 64 bit.',
 },
 'C07': {
  'engine': 'V+K', 'design_ref': 'DESIGN.md §5 C07, §10',
  'technique': 'Verus proof of AuthenticatorData::serialize and both SerializeAttestedCredentialData impls (verbatim) against the WebAuthn layout for all lengths; Kani on the real heapless code for small sizes',
  'text': 'Unbounded in every length (credential id incl. 65535/65536, public key, extensions), hash, flag set and counter: output == rpIdHash||flags||signCount(BE)||[aaguid||len(BE16)||id||key]||[ext]; Ok iff it fits 676 bytes and the id length fits 16 bits; never shortened. Flag bit positions proved on the real bitflags type.',
  'note': 'heapless-bytes push/extend_from_slice contracts assumed (inc/heapless_contract.rs) and validated on small sizes by Kani; the extension map encoding is uninterpreted here (C02/C03 cover it).',
 },
 'C08': {
  'engine': 'V+K', 'design_ref': 'DESIGN.md §5 C08, §10.4g',
  'technique': 'Verus proof of the real TryFrom<CommandView> for ctap1::Request (verbatim) against the decision table, for a data field of any length; loop-free Kani contract harnesses over every raw APDU up to 400 bytes (thorough: 65600 = the whole ISO 7816 domain) through the real iso7816 parser, pointer-identity postconditions',
  'text': 'Unbounded in the data length (Verus): class first, Version shortcut, Register iff 64 bytes, Authenticate iff P1 in {3,7,8} and exactly 65+data[64] bytes, errors otherwise, borrowed outputs are exactly the windows [0,32) [32,64) [65,len) of the data field, no unwrap() can fire. On the real iso7816 code (Kani, complete for APDUs up to 400 bytes = every decision boundary in all four length encodings): the same table from the raw bytes, outputs identical by address to the input window, framing checked not assumed. ControlByte table proved by Verus.',
  'note': 'iso7816 CommandView is a ghost model in the Verus unit (class byte, instruction, data window) and the real thing in the Kani harnesses; `X.try_into()` rewritten to `TryFrom::try_from(X)`; CBMC bit-precise semantics, 64-bit usize.',
 },
 'C09': {
  'engine': 'V', 'design_ref': 'DESIGN.md §5 C09, §10',
  'technique': 'Verus proof of ctap1::Response::serialize (verbatim) against the U2F raw message layout for every capacity S, pre-fill and part length',
  'text': 'Unbounded: prefix never disturbed; Ok iff the message fits; on Ok the appended bytes are exactly header||key||len||handle||cert||sig / presence||counter(BE)||sig / the six version bytes and the appended length is the sum of the parts.',
  'note': 'heapless Vec push/extend_from_slice contracts assumed; u32::to_be_bytes via a trusted wrapper (Verus cannot attach a spec to it).',
 },
 'C10': {
  'engine': 'V+K', 'design_ref': 'DESIGN.md §5 C10, §10',
  'technique': 'Verus proof of the default methods call_ctap2 / call_ctap1 and both blanket Rpc::call impls (verbatim) with a ghost call log and arbitrary handler outcome functions',
  'text': 'Unbounded over all authenticators (arbitrary outcome functions), request variants, vendor codes and payloads: exactly one handler call, of the right command, receiving the request\'s own parameters; result wrapped in the same-named variant or error unchanged; GetInfo / Version infallible; default large_blobs answers InvalidCommand and calls nothing; Rpc::call has the same postcondition.',
  'note': 'core Result::inspect_err specified by assume_specification (returns its receiver); handlers modelled as deterministic functions of (state, request).',
 },
 'C11': {
  'engine': 'V+K', 'design_ref': 'DESIGN.md §5 C11',
  'technique': 'Verus proof of src/operation.rs (whole file, verbatim) and of Request::deserialize against the CTAP 2.1 command table; loop-free Kani harnesses over all 256 bytes for counterexamples',
  'text': 'Unbounded proof for all 256 bytes and all message tails: tables both ways, round trip, injectivity, exact recognised set, vendor range 0x42..=0x7F; parameter-less commands decode from their byte alone, 0x41 == 0x0A, unsupported/unassigned bytes => InvalidCommand whatever follows.',
  'note': 'cbor_deserialize uninterpreted (only reached for parameter-bearing commands); vstd specs of slice::split_first / Option::ok_or trusted; three stated desugarings applied to Request::deserialize.',
 },
 'C12': {
  'engine': 'D+V+K', 'design_ref': 'DESIGN.md §5 C12, §10.4f',
  'technique': 'Verus-discharged declaration obligations: capacity / integer width of every bounded member against the limit table, sizes.rs constants per configuration; Verus proof of the heapless / heapless-bytes container decoders on the pinned dependency sources (any input length); Kani probes at N / N+1 and integer ranges on the real decoder',
  'text': 'Every bounded request member has exactly the declared capacity or integer type in every feature configuration. That the containers accept exactly <= N, reject anything longer and copy verbatim is proved on the pinned heapless / heapless-bytes sources for every N and input length (unit dep_container_decoders, over the assumed Vec::push / extend_from_slice contracts) and probed on the real code at 32/33 bytes.',
  'note': 'A5 assumed; heapless Vec primitives (unsafe code) assumed and Kani-validated; accepted values "delivered whole" for borrowed members follows from zero-copy decoding (A8).' + _D,
 },
 'C13': {
  'engine': 'V+K', 'design_ref': 'DESIGN.md §5 C13, §10.4f, §10.4h',
  'technique': 'Verus proof of the real bodies of truncate, floor_char_boundary and is_utf8_char_boundary (cut from src/webauthn.rs every run) against "longest prefix of at most L bytes ending on a character boundary", of the two lossy text helpers and of the heapless String code under them, for texts of any length and every capacity; Kani function contract on floor_char_boundary (proof_for_contract) and helper harnesses through serde value deserializers as bounded backstops that supply counterexamples',
  'text': 'Unbounded (Verus, any text length, any capacity L): truncate(text) is the longest prefix of at most L bytes ending on a character boundary (a text that fits is unchanged), with the unsafe unwrap_unchecked, the str slicing and the push_str unwrap discharged as proof obligations; the char-boundary bit trick is proved by bit-vector reasoning for all bytes; the icon helper keeps a text of at most L bytes verbatim and reports a longer one absent, never an error; the name helper maps absent to absent and a present text to truncate(text). Two facts about UTF-8 itself are axioms (AU). Bounded backstops (Kani, real monomorphised code): floor_char_boundary for all valid UTF-8 strings <= 6 bytes (thorough 8) and, under the window precondition, <= 300 bytes with every index; truncate::<L> for L in {1,2,3,4,64}; user icon kept verbatim <= 128 bytes and dropped beyond (this found the icon panic, fixed); present names stay present; rp icon discarded.',
  'note': 'assumed: AU (no four consecutive continuation bytes in a &str; first byte not a continuation byte), trusted wrappers for core rposition / &s[..k] / unwrap_unchecked, heapless Vec::extend_from_slice contract; serde Deserialize of &str / Option<&str> modelled by contract; rejection of ill-formed UTF-8 is cbor-smol\'s from_utf8 (A8); A12 for the Kani window variant. The Kani harnesses are labelled bounded and are not what the level rests on.',
 },
 'C14': {
  'engine': 'V+K', 'design_ref': 'DESIGN.md §5 C14, §10.4e',
  'technique': 'Verus proof of both filtering visit_seq loops (verbatim, loop invariants injected) for lists of any length against a left-to-right specification; Verus proofs of the two element classifiers on the verbatim code (KnownPublicKeyCredentialParameters::try_from for every algorithm and type string; AttestationStatementFormat::try_from for strings of any length); Kani proofs of the classifiers (bounded strings) and mock-SeqAccess harnesses on the real monomorphised loops as backstops',
  'text': 'Unbounded in the list length: the result is exactly the first two known entries in the platform\'s order, the unknown-format flag is exact, the whole list is read, and the only way to fail is a failure of the underlying sequence. Which entries are "known" is decided by the two classifier functions, proved by Verus on the verbatim code: kept iff type == "public-key" and algorithm in {-7, -8} (algorithm carried over unchanged), format kept iff "packed" / "none" - type and format strings of any length (Kani re-checks them over all i32 algorithms / type strings up to 12 bytes and all format strings up to 20 bytes).',
  'note': 'serde SeqAccess modelled by a ghost sequence; heapless Vec::push contract assumed (validated by dep_k_*); element decoding (String<32> capacity etc.) is A4/A8.',
 },
 'C15': {
  'engine': 'D+K', 'design_ref': 'DESIGN.md §5 C15',
  'technique': 'Verus-discharged declaration obligations (both derives from one declaration, no one-directional attributes, optionality agreement, repr discriminants) + C03 order obligations; Kani round trips on string enums and two small structs',
  'text': 'Both directions are generated from the same declaration, so encode and decode tables coincide (under A1-A4); canonical re-encoding follows from the C03 order obligations; string enumerations round-trip for all strings up to 20 bytes (Kani, complete).',
  'note': 'derive contracts assumed; value-level round trip of large types not executed symbolically.' + _D,
 },
 'C16': {
  'engine': 'V+D', 'design_ref': 'DESIGN.md §5 C16, §10.4h',
  'technique': 'Verus-discharged obligations over every pair of distinct effective wire tables among the 8 feature configurations; Verus proof of the four string identifier tables (verbatim) against one contract in the two extreme feature configurations (verus --cfg)',
  'text': 'For every struct and every pair of configurations: common members have identical rows in the same relative order; configuration-only members are feature-only per the specification; constants other than LARGE_BLOB_MAX_FRAGMENT_LENGTH do not vary; std/arbitrary/log-* guard no member, attribute or constant.',
  'note': 'A1-A3, A5 assumed.' + _D,
 },
 'C17': {
  'engine': 'V+K', 'design_ref': 'DESIGN.md §5 C17, §10',
  'technique': 'Verus proof of ctap2::Response::serialize (verbatim) for every capacity N >= 1 against "complete message or exactly [7F]"; Kani harnesses on the real code for small N as backstop',
  'text': 'Unbounded in the capacity N, the response (all kinds; bodies uninterpreted) and the previous buffer content: the buffer ends as [00]||body when that fits N, else exactly [7F]; never truncated; a member-less map and the parameter-less responses give [00]. One known finding (capacity 1 with a member-less map body) is excluded by the precondition and demonstrated by its own Kani harness.',
  'note': 'assumed contracts: heapless resize_default / split_first_mut, cbor_serialize writes its encoding at the start of the buffer iff it fits (A6); slice == byte-array literal goes through a trusted wrapper.',
 },
 'C18': {
  'engine': 'V+K', 'design_ref': 'DESIGN.md §5 C18',
  'technique': 'Verus proof of the numeric tables (enums and TryFrom impls verbatim) and of the four string tables (enums, constants, From<X> for &str and TryFrom<&str> for X verbatim) for strings of any length; Kani proofs of the string tables over all strings up to 20 bytes (backstop with counterexamples) and of the bitflags constants',
  'text': 'Numeric identifiers (PIN sub-commands, CM sub-commands, credProtect, control bytes, 55 status codes, command bytes): exact numbers, pairwise distinct, everything else rejected — unbounded Verus proof. String identifiers (versions, extensions, transports, attestation formats): encoding gives exactly the specification spelling, try_from(s) is Ok(v) iff s equals v\'s spelling, every other string of any length is rejected — unbounded Verus proof on the verbatim impls (plus Kani for every s up to 20 bytes). Permission and flag bits on the real bitflags types.',
  'note': 'serde_repr rejecting other numbers on the wire: A2; Verus string tables assume that equality of &str values (constant patterns) is equality of contents (axiom_str_eq_is_content_eq) and are checked in the default cfg (a cfg-gated arm is evaluated as without features); Kani: strings longer than 20 bytes cannot equal a <= 17 byte constant (A11).',
 },
 'C19': {
  'engine': 'V+K', 'design_ref': 'DESIGN.md §5 C19, §10.4h',
  'technique': 'Verus proof of the real bodies of arbitrary_str / arbitrary_bytes / arbitrary_key (cut from src/arbitrary.rs every run) for input byte strings of any length: within capacity, well-formed UTF-8 at from_utf8_unchecked, no unwrap can fire; Kani contract harnesses on all private generator helpers and the CTAP1 generator with the arbitrary feature, bounded input length',
  'text': 'Unbounded (Verus, any input length, any capacity): arbitrary_str, arbitrary_bytes and arbitrary_key return an error or a value within capacity, the text handed to from_utf8_unchecked is well-formed, neither unwrap can panic. Bounded (Kani, real monomorphised code): for every input of up to 16 bytes all helpers (including arbitrary_vec and the pointer cast of arbitrary_byte_array) return NotEnoughData or a value within capacity, no unwrap fires; CTAP1 request generator for inputs up to 68 bytes (thorough). The level is model_checking because the derived generators and two helpers are bounded only.',
  'note': 'assumed: AR (Unstructured bytes/peek_bytes, core from_utf8 family, heapless / heapless-bytes panicking conversions); whole ctap2::Request generation not explored (type too large for CBMC); Kani input length bounded.',
 },
}
