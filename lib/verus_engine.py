"""Engine V: Verus on functions extracted verbatim from /repo on every run.

A *unit* is a template in /verif/verus/<unit>.rs.  Lines of the form

    //@extract <path> :: <header regex> [:: nth=<k>] [:: raw]
    //@extract-file <path>

are replaced by the (normalised, see extract.normalise) source text of the item.  <path> is
relative to /repo, or `dep:<crate>/<relative path>` for a pinned dependency (version read
from /repo/Cargo.lock, source read from the offline cargo registry).  Everything else in
the template is contract text (spec functions, *SpecImpl blocks, lemmas).

Outcome per unit: a list of Ob, one per verified function / lemma reported by Verus.
"""
import glob
import json
import os
import re
import subprocess

from common import (CACHE, DISCHARGED, FAILED, REPO, UNDECIDED, VERIF, Ob, log, run)
import extract

VERUS_DIR = os.path.join(VERIF, 'verus')


def dep_version(crate):
    lock = open(os.path.join(REPO, 'Cargo.lock')).read()
    m = re.search(r'name = "%s"\nversion = "([^"]+)"' % re.escape(crate), lock)
    if not m:
        raise extract.AnchorLost('dependency %s not in Cargo.lock' % crate)
    return m.group(1)


def dep_path(crate, rel):
    v = dep_version(crate)
    c = glob.glob(os.path.expanduser('~/.cargo/registry/src/*/%s-%s/%s' % (crate, v, rel)))
    if not c:
        raise extract.AnchorLost('dependency source %s-%s/%s not in the offline registry' % (crate, v, rel))
    return c[0]


def resolve(path):
    if path.startswith('dep:'):
        crate, rel = path[4:].split('/', 1)
        return dep_path(crate, rel)
    return os.path.join(REPO, path)


def apply_contract(item, fn, text):
    """Attach contract clauses to `fn <fn>` inside the extracted item: the return type `-> T`
    becomes `-> (r: T)` and the clauses are inserted between the signature and the body.
    The body is not touched."""
    m = re.search(r'\bfn\s+%s\s*(<[^{(]*>)?\s*\(' % re.escape(fn), item)
    if not m:
        raise extract.AnchorLost('function %s not found for its contract' % fn)
    # find the opening brace of the body (or the ';' of a bodiless declaration): first '{' / ';'
    # at paren depth 0 after the parameter list
    i = m.end() - 1
    depth = 0
    while i < len(item):
        c = item[i]
        if c in '([':
            depth += 1
        elif c in ')]':
            depth -= 1
        elif c in '{;' and depth == 0:
            break
        i += 1
    sig = item[m.start():i]
    arrow = sig.rfind('->')
    # the arrow must be outside the parameter list
    close = 0
    d = 0
    for k, c in enumerate(sig):
        if c == '(':
            d += 1
        elif c == ')':
            d -= 1
            if d == 0:
                close = k
                break
    if arrow > close:
        ret = sig[arrow + 2:].strip()
        where = ''
        wm = re.search(r'\bwhere\b', ret)
        if wm:
            where = ' ' + ret[wm.start():]
            ret = ret[:wm.start()].strip()
        newsig = sig[:arrow] + '-> (r: %s)%s\n%s\n' % (ret, where, text.rstrip())
    else:
        newsig = sig.rstrip() + '\n%s\n' % text.rstrip()
    return item[:m.start()] + newsig + item[i:]


def drop_fn_body(item, fn, drops):
    """Replace the body of `fn <fn>` inside the item by `;` (the body is verified in another unit)."""
    m = re.search(r'\bfn\s+%s\s*(<[^{(]*>)?\s*\(' % re.escape(fn), item)
    if not m:
        raise extract.AnchorLost('function %s not found (drop-body)' % fn)
    i = m.end() - 1
    depth = 0
    while i < len(item):
        c = item[i]
        if c in '([':
            depth += 1
        elif c in ')]':
            depth -= 1
        elif c in '{;' and depth == 0:
            break
        i += 1
    if item[i] == ';':
        raise extract.AnchorLost('function %s has no body any more (drop-body)' % fn)
    j = _match_fwd(item, i)
    kk = 'body of default method `%s` replaced by `;` in this unit (verified separately)' % fn
    drops[kk] = drops.get(kk, 0) + 1
    return item[:i].rstrip() + ';' + item[j + 1:]


def desugar_ref_patterns(item, drops):
    """`let (&x, y) = E;`  ==>  `let (x__ref, y) = E; let x = *x__ref;`
    Verus does not support reference patterns; this is the only rewrite applied inside a body
    and it is reported in the evidence. Semantics-preserving for Copy referents."""
    # match-arm form:  `Some((&x, y)) => EXPR,`  ==>  `Some((x__ref, y)) => { let x = *x__ref; EXPR },`
    while True:
        m = re.search(r'Some\(\(&(\w+), (\w+)\)\) =>\s*', item)
        if not m:
            break
        x = m.group(1)
        i = m.end()
        if item[i] == '{':
            j = _match_fwd(item, i)
            body = item[i + 1:j]
            end = j + 1
        else:
            d = 0
            j = i
            while j < len(item):
                c = item[j]
                if c in '([{':
                    d += 1
                elif c in ')]}':
                    if d == 0:
                        break
                    d -= 1
                elif c == ',' and d == 0:
                    break
                j += 1
            body = item[i:j]
            end = j
        item = (item[:m.start()] + 'Some((%s__ref, %s)) => { let %s = *%s__ref; %s }' % (x, m.group(2), x, x, body.strip())
                + item[end:])
        k = 'desugared reference pattern in a match arm `Some((&x, y)) => e` into `Some((x__ref, y)) => { let x = *x__ref; e }`'
        drops[k] = drops.get(k, 0) + 1
    while True:
        m = re.search(r'let \(&(\w+), (\w+)\) = ', item)
        if not m:
            return item
        x = m.group(1)
        # end of the statement: next ';' at bracket depth 0
        i = m.end()
        d = 0
        while i < len(item):
            c = item[i]
            if c in '([{':
                d += 1
            elif c in ')]}':
                d -= 1
            elif c == ';' and d == 0:
                break
            i += 1
        item = (item[:m.start()] + 'let (%s__ref, %s) = ' % (x, m.group(2)) + item[m.end():i + 1]
                + ' let %s = *%s__ref;' % (x, x) + item[i + 1:])
        k = 'desugared reference pattern `let (&x, y) = e;` into `let (x__ref, y) = e; let x = *x__ref;`'
        drops[k] = drops.get(k, 0) + 1


def _match_fwd(text, i):
    """text[i] is an opening bracket; return index of its partner."""
    pairs = {'(': ')', '[': ']', '{': '}'}
    o = text[i]
    c = pairs[o]
    d = 0
    while i < len(text):
        if text[i] == o:
            d += 1
        elif text[i] == c:
            d -= 1
            if d == 0:
                return i
        i += 1
    raise extract.AnchorLost('unbalanced bracket')


def desugar_map_err_try(item, drops):
    """`R.map_err(F)?`  ==>  `match R { Ok(v__) => v__, Err(p) => return Err(From::from(B)) }`
    where F is a closure `|p| B` (p a variable or `_`) or an enum constructor path P (then
    p = e__, B = P(e__)).  This is the definition of `?` and of `Result::map_err`, unfolded:
    Verus knows nothing about un-annotated closures passed to `map_err`, and does not accept
    `|_|` parameters or constructors used as function values."""
    key = 'unfolded `R.map_err(F)?` into `match R { Ok(v) => v, Err(p) => return Err(From::from(F(p))) }`'
    while True:
        m = re.search(r'\.map_err\(', item)
        if not m:
            return item
        close = _match_fwd(item, m.end() - 1)
        if item[close + 1:close + 2] != '?':
            raise extract.AnchorLost('map_err without `?` is outside the supported desugaring')
        arg = item[m.end():close].strip()
        # receiver: scan backwards over  ident / :: / . / balanced (...) / <...>
        i = m.start()
        while i > 0:
            ch = item[i - 1]
            if ch == ')':
                d = 0
                j = i - 1
                while j >= 0:
                    if item[j] == ')':
                        d += 1
                    elif item[j] == '(':
                        d -= 1
                        if d == 0:
                            break
                    j -= 1
                i = j
            elif ch.isalnum() or ch in '_:.&*':
                i -= 1
            elif ch.isspace() and item[i] == '.':
                # a method chain continued on the next line: skip the whole whitespace run
                while i > 0 and item[i - 1].isspace():
                    i -= 1
            else:
                break
        recv = item[i:m.start()]
        cm = re.match(r'\|\s*(\w+)\s*\|\s*(.*)$', arg, flags=re.S)
        if cm:
            pvar = cm.group(1)
            body = cm.group(2).strip()
            pat = 'Err(_)' if pvar == '_' else 'Err(%s)' % pvar
        elif re.match(r'^[A-Za-z_]\w*(::\w+)+$', arg):
            pat = 'Err(e__)'
            body = '%s(e__)' % arg
        elif arg == 'drop':
            # `R.map_err(drop)?` in a function whose error type is (): the error value is discarded
            new = 'match %s { Ok(v__) => v__, Err(_) => return Err(()) }' % recv
            item = item[:i] + new + item[close + 2:]
            k2 = 'unfolded `R.map_err(drop)?` into `match R { Ok(v) => v, Err(_) => return Err(()) }`'
            drops[k2] = drops.get(k2, 0) + 1
            continue
        else:
            raise extract.AnchorLost('map_err argument outside the supported desugaring: %s' % arg[:60])
        new = 'match %s { Ok(v__) => v__, %s => return Err(From::from(%s)) }' % (recv, pat, body)
        item = item[:i] + new + item[close + 2:]
        drops[key] = drops.get(key, 0) + 1


def instantiate(unit, drops, extracted):
    tpl = open(os.path.join(VERUS_DIR, unit + '.rs')).read()
    contracts = {}

    def grab(mm):
        contracts[mm.group(1)] = mm.group(2)
        return ''
    tpl = re.sub(r'/\*@contract (\w+)\n(.*?)@\*/\n?', grab, tpl, flags=re.S)
    injects = {}

    def grab2(mm):
        injects[mm.group(1)] = mm.group(2)
        return ''
    tpl = re.sub(r'/\*@(?:inject|implspec) (\w+)\n(.*?)@\*/\n?', grab2, tpl, flags=re.S)
    loopinvs = {}

    def grab3(mm):
        pre, _, inv = mm.group(2).partition('\n@@\n')
        loopinvs[mm.group(1)] = (pre, inv)
        return ''
    tpl = re.sub(r'/\*@loopinv (\w+)\n(.*?)@\*/\n?', grab3, tpl, flags=re.S)
    out = []
    for line in tpl.split('\n'):
        s = line.strip()
        if s.startswith('//@include '):
            out.append(open(os.path.join(VERUS_DIR, s[len('//@include '):].strip())).read())
        elif s.startswith('//@extract-file '):
            path = s[len('//@extract-file '):].strip()
            text = open(resolve(path)).read()
            text = re.sub(r'(?m)^(pub )?use [^;]*;[ \t]*$', '', text)
            # cut the unit tests
            k = text.find('#[cfg(test)]')
            if k >= 0:
                text = text[:k]
            out.append(extract.normalise(text, drops))
            extracted.append({'from': path, 'item': '<whole file, without `use` lines and #[cfg(test)] module>'})
        elif s.startswith('//@extract '):
            parts = [p.strip() for p in s[len('//@extract '):].split(' :: ')]
            path, rx = parts[0], parts[1]
            nth = 0
            raw = False
            strip = []
            cons = []
            noderive = False
            deriveonly = None
            desugar = False
            addder = None
            inject = None
            intbytes = False
            loopinv = None
            noiso = False
            sliceeq = False
            tryinto = False
            dropbody = []
            strlen = None
            strprefix = False
            rpos = None
            prooftop = None
            strtryinto = False
            for p in parts[2:]:
                if p.startswith('nth='):
                    nth = int(p[4:])
                elif p == 'raw':
                    raw = True
                elif p.startswith('strip='):
                    strip = p[6:].split(',')
                elif p.startswith('contracts='):
                    cons = p[10:].split(',')
                elif p == 'noderive':
                    noderive = True
                elif p.startswith('derive-only='):
                    deriveonly = p[len('derive-only='):]
                elif p == 'desugar-refpat':
                    desugar = True
                elif p.startswith('add-derive='):
                    addder = p[len('add-derive='):]
                elif p == 'int-bytes':
                    intbytes = True
                elif p.startswith('loop-invariant='):
                    loopinv = p[len('loop-invariant='):]
                elif p == 'no-loop-isolation':
                    noiso = True
                elif p == 'slice-eq':
                    sliceeq = True
                elif p == 'try-into':
                    tryinto = True
                elif p.startswith('inject='):
                    inject = p[len('inject='):]
                elif p.startswith('drop-body='):
                    dropbody = p[len('drop-body='):].split(',')
                elif p.startswith('str-len='):
                    strlen = p[len('str-len='):]
                elif p == 'str-prefix':
                    strprefix = True
                elif p == 'str-try-into-unwrap':
                    strtryinto = True
                elif p.startswith('rposition='):
                    rpos = p[len('rposition='):].split(',')
                elif p.startswith('proof-top='):
                    prooftop = p[len('proof-top='):]
            item = extract.extract(resolve(path), rx, drops, nth=nth, raw=raw)
            if deriveonly:
                item, k = re.subn(r'(?m)^(\s*)#\[derive\([^)]*\)\]\s*\n', r'\1#[derive(%s)]\n' % deriveonly, item)
                kk = '#[derive(..)] reduced to #[derive(%s)] (leaf types are opaque here)' % deriveonly
                drops[kk] = drops.get(kk, 0) + k
            if noderive:
                item, k = re.subn(r'(?m)^\s*#\[derive\([^)]*\)\]\s*\n', '', item)
                if k:
                    drops['#[derive(..)] lines (payload types are opaque here)'] = \
                        drops.get('#[derive(..)] lines (payload types are opaque here)', 0) + k
            if intbytes:
                item, k = re.subn(r'\.to_(be|le)_bytes\(\)', r'.to_\1_bytes__()', item)
                if k:
                    kk = 'renamed `.to_be_bytes()` / `.to_le_bytes()` calls to the trusted wrappers `.to_be_bytes__()` / `.to_le_bytes__()`'
                    drops[kk] = drops.get(kk, 0) + k
            if loopinv:
                pre, inv = loopinvs[loopinv]
                lm = re.search(r'(?m)^(\s*)for _ in ([^{]+?) \{', item)
                wm = re.search(r'(?m)^(\s*)while let (.+?) =\s*(.+?) \{\n', item, flags=re.S)
                if lm:
                    ind = lm.group(1)
                    item = (item[:lm.start()] + pre.rstrip() + '\n' + ind + 'for i__ in ' + lm.group(2) + '\n' + inv.rstrip() + '\n' + ind + '{'
                            + item[lm.end():])
                    kk = 'loop `for _ in a..b` given the loop variable name `i__`, ghost declarations before it and an `invariant` clause (annotation only)'
                    drops[kk] = drops.get(kk, 0) + 1
                elif wm:
                    # `while let P = E { B }`  ==>  `loop <clauses> { match E { P => { B } _ => { break; } } }` — the definition of
                    # while-let; Verus keeps the facts established by evaluating E only on the explicit `break` path
                    ind = wm.group(1)
                    ob = wm.end() - 2          # index of the '{' opening the body
                    cb = _match_fwd(item, ob)
                    body = item[ob + 1:cb]
                    item = (item[:wm.start()] + pre.rstrip() + '\n' + ind + 'loop\n' + inv.rstrip() + '\n' + ind + '{ match ' + wm.group(3).strip()
                            + ' { ' + wm.group(2).strip() + ' => {' + body + '} _ => { break; } } }' + item[cb + 1:])
                    kk = ('`while let P = E { B }` unfolded into `loop { match E { P => { B } _ => { break; } } }` with ghost declarations and '
                          '`invariant` / `ensures` / `decreases` clauses (the definition of while-let; annotation otherwise)')
                    drops[kk] = drops.get(kk, 0) + 1
                else:
                    raise extract.AnchorLost('loop not found for its invariant (%s)' % loopinv)
            if noiso:
                fm = re.search(r'(?m)^(\s*)((?:pub(?:\([a-z]+\))? )?fn )', item)
                item = item[:fm.start()] + fm.group(1) + '#[verifier::loop_isolation(false)]\n' + fm.group(1) + '#[verifier::allow_complex_invariants]\n' + item[fm.start():]
                kk = 'attribute #[verifier::loop_isolation(false)] added to the function (facts established before the loop stay visible in its body)'
                drops[kk] = drops.get(kk, 0) + 1
            if tryinto:
                item, k = re.subn(r'(\((?:[^()]|\([^()]*\))*\))\.try_into\(\)', r'TryFrom::try_from\1', item)
                if k:
                    kk = ('rewrote `(X).try_into()` into `TryFrom::try_from(X)` (the definition of the blanket `impl<T, U: TryFrom<T>> TryInto<U> for T`; '
                          'vstd does not connect `try_into` with the specification of a foreign `try_from`)')
                    drops[kk] = drops.get(kk, 0) + k
            if noderive:
                item, k = re.subn(r'(?m)^\s*#\[default\]\s*\n', '', item)
                if k:
                    drops['#[default] variant markers (only meaningful to the dropped derive(Default))'] = k
            if sliceeq:
                item, k = re.subn(r'\b(\w+) == (\[(?:0x[0-9A-Fa-f]+|\d+)(?:\s*,\s*(?:0x[0-9A-Fa-f]+|\d+))*\])', r'slice_eq__(\1, &\2)', item)
                if k:
                    kk = ('rewrote `s == [..byte literals..]` into the trusted wrapper `slice_eq__(s, &[..])` (vstd\'s specification of '
                          'slice == array equality is too weak to evaluate it and cannot be overridden)')
                    drops[kk] = drops.get(kk, 0) + k
            for fn in dropbody:
                item = drop_fn_body(item, fn, drops)
            if strlen:
                item, k = re.subn(r'\b%s\.len\(\)' % re.escape(strlen), '%s.as_bytes().len()' % strlen, item)
                if not k:
                    raise extract.AnchorLost('no `%s.len()` left to rewrite (str-len)' % strlen)
                kk = ('rewrote `%s.len()` on a `&str` into `%s.as_bytes().len()` (the definition of `str::len` in core; vstd specifies '
                      '`str::as_bytes` and slice `len`, its `str::len` says nothing about bytes)' % (strlen, strlen))
                drops[kk] = drops.get(kk, 0) + k
            if strtryinto:
                item, k = re.subn(r'\b(\w+)\.try_into\(\)\.unwrap\(\)', r'string_try_into_unwrap__(\1)', item)
                if not k:
                    raise extract.AnchorLost('no `s.try_into().unwrap()` left to rewrite (str-try-into-unwrap)')
                kk = ('rewrote `s.try_into().unwrap()` (a `&str` into a heapless `String<N>`) into the trusted wrapper `string_try_into_unwrap__(s)` whose '
                      'precondition is the panic condition of heapless 0.7 (`s.len() <= N`) — so "the conversion cannot panic" is a proved obligation')
                drops[kk] = drops.get(kk, 0) + k
            if strprefix:
                item, k = re.subn(r'&(\w+)\[\.\.(\w+)\]', r'str_prefix__(\1, \2)', item)
                if not k:
                    raise extract.AnchorLost('no `&s[..k]` left to rewrite (str-prefix)')
                kk = ('rewrote `&s[..k]` on a `&str` into the trusted wrapper `str_prefix__(s, k)` whose precondition is core\'s panic condition '
                      '(k <= len and k is a character boundary) — so "the slicing cannot panic" is a proved obligation')
                drops[kk] = drops.get(kk, 0) + k
            if rpos:
                # `let V = X .iter() .rposition(|b| P);`  ==>  closure bound to a name and annotated with its contract, call through the
                # trusted wrapper `slice_rposition__(&X, pred__)` (contract of core's `Iterator::rposition` on a slice iterator), ghost proof after it
                rm = re.search(r'(?m)^(\s*)let (\w+) = ([^;]*?)\s*\.iter\(\)\s*\.rposition\(\|(\w+)\| ([^;]*?)\);[ \t]*\n', item, flags=re.S)
                if not rm:
                    raise extract.AnchorLost('`let v = X.iter().rposition(|b| P);` not found (rposition)')
                ind = rm.group(1)
                # the ghost text may name the locals of the statement through placeholders, so that renaming a local is not an anchor loss:
                # $R = the bound result, $B = the closure parameter, and for `S.as_bytes()[LB..=IDX]`: $S, $LB, $IDX
                subst = {'$R': rm.group(2), '$B': rm.group(4)}
                wm2 = re.match(r'^(\w+)\.as_bytes\(\)\[(\w+)\.\.=(\w+)\]$', rm.group(3).strip())
                if wm2:
                    subst.update({'$S': wm2.group(1), '$LB': wm2.group(2), '$IDX': wm2.group(3)})

                def fill(txt):
                    for k_, v_ in sorted(subst.items(), key=lambda kv: -len(kv[0])):
                        txt = txt.replace(k_, v_)
                    return txt
                new = (ind + 'let pred__ = |%s: &u8| -> (r: bool)\n' % rm.group(4) + fill(injects[rpos[0]]).rstrip() + '\n' + ind + '{ ' + rm.group(5).strip() + ' };\n'
                       + ind + 'let %s = slice_rposition__(&%s, pred__);\n' % (rm.group(2), rm.group(3).strip())
                       + fill(injects[rpos[1]]).rstrip() + '\n')
                item = item[:rm.start()] + new + item[rm.end():]
                kk = ('rewrote `X.iter().rposition(|b| P)` into `slice_rposition__(&X, pred__)` with `pred__ = |b: &u8| -> (r: bool) ensures .. { P }` bound '
                      'to a name (trusted wrapper carrying the contract of core\'s `rposition` on a slice iterator; the closure body P is the real one and is '
                      'checked against the injected `ensures`), followed by a ghost `proof { }` block')
                drops[kk] = drops.get(kk, 0) + 1
            if inject:
                k = item.index('{')
                item = item[:k + 1] + '\n' + injects[inject] + item[k + 1:]
                kk = 'ghost/spec items of the contract inserted at the top of the extracted trait body'
                drops[kk] = drops.get(kk, 0) + 1
            if addder:
                item = '#[derive(%s)]\n' % addder + item
                kk = 'added #[derive(%s)] to an extracted enum (needed for `as u8` in spec code)' % addder
                drops[kk] = drops.get(kk, 0) + 1
            if desugar:
                item = desugar_ref_patterns(item, drops)
                item = desugar_map_err_try(item, drops)
            for fn in cons:
                fname, _, label = fn.partition(':')
                item = apply_contract(item, fname, contracts[label or fname])
            if strip:
                item = extract.strip_macro_calls(item, strip, drops)
            if prooftop:
                fname, _, label = prooftop.partition(':')
                m = re.search(r'\bfn\s+%s\s*(<[^{(]*>)?\s*\(' % re.escape(fname), item)
                if not m:
                    raise extract.AnchorLost('function %s not found (proof-top)' % fname)
                i = m.end() - 1
                depth = 0
                while i < len(item):
                    c = item[i]
                    if c in '([':
                        depth += 1
                    elif c in ')]':
                        depth -= 1
                    elif c == '{' and depth == 0:
                        break
                    i += 1
                item = item[:i + 1] + '\n' + injects[label].rstrip() + item[i + 1:]
                kk = 'ghost `proof { }` block inserted at the top of a function body (annotation only)'
                drops[kk] = drops.get(kk, 0) + 1
            out.append(item)
            extracted.append({'from': path, 'item': rx, 'lines': item.count('\n') + 1,
                              'contracts_attached_to': cons})
        else:
            out.append(line)
    return '\n'.join(out)


def _parse_functions(js):
    """Yield (function, success, time_ms) from --output-json --time."""
    res = []
    try:
        smt = js['times-ms']['smt']['smt-run-module-times']
    except Exception:
        return res
    for mod in smt:
        for f in mod.get('function-breakdown', []):
            res.append((f['function'], bool(f.get('success')), f.get('time-micros', 0) / 1e6, f.get('mode:', '')))
    return res


def run_unit(unit, prop, extra_args=(), kind='proof', timeout=300):
    """Instantiate and verify one unit. Returns (obs, info)."""
    drops = {}
    extracted = []
    info = {'unit': unit, 'drops': drops, 'extracted': extracted}
    os.makedirs(os.path.join(CACHE, 'verus'), exist_ok=True)
    # `<unit>@allfeatures`: the same unit verified a second time with every wire-relevant cargo feature switched on (rustc --cfg), so that
    # `#[cfg(feature = ..)]` items inside the extracted code are checked in both extreme configurations
    template = unit
    if unit.endswith('@allfeatures'):
        template = unit[:-len('@allfeatures')]
        extra_args = list(extra_args) + [a for f in ('get-info-full', 'large-blobs', 'third-party-payment') for a in ('--cfg', 'feature="%s"' % f)]
    try:
        src = instantiate(template, drops, extracted)
    except extract.AnchorLost as e:
        return [Ob('%s::extract' % unit, 'verus', UNDECIDED, detail='extraction anchor lost: %s' % e)], info
    path = os.path.join(CACHE, 'verus', '%s.rs' % unit.replace('@', '_'))
    with open(path, 'w') as f:
        f.write(src)
    info['file'] = path
    cmd = ['verus', path, '--output-json', '--time', '--multiple-errors', '10'] + list(extra_args)
    info['cmd'] = ' '.join(cmd)
    e = dict(os.environ)
    p = subprocess.run(cmd, stdout=subprocess.PIPE, stderr=subprocess.PIPE, text=True, errors='replace',
                       timeout=timeout, cwd=os.path.join(CACHE, 'verus'))
    diag = p.stderr
    try:
        js = json.loads(p.stdout)
    except Exception:
        return [Ob('%s::verus' % unit, 'verus', UNDECIDED, detail='verus produced no JSON', output=diag[-4000:])], info
    vr = js.get('verification-results', {})
    funcs = _parse_functions(js)
    info['verus_total_ms'] = js.get('times-ms', {}).get('total')
    obs = []
    if vr.get('encountered-vir-error') or (vr.get('encountered-error') and not funcs):
        # the extracted code is outside Verus' subset or does not type-check against the contract text:
        # undecided, never a violation.
        return [Ob('%s::verus-frontend' % unit, 'verus', UNDECIDED,
                   detail='verus rejected the file before verification (construct outside the subset / API change)',
                   output=diag[-6000:])], info
    # split the human-readable diagnostics per function (by line number of the failing item)
    blocks = re.split(r'\n(?=error)', diag)
    for fn, ok, t, mode in funcs:
        short = fn.split('::', 1)[1] if '::' in fn else fn
        last = short.split('::')[-1]
        if ok and (last == 'clone' or last.isupper() or last in ('FIRST', 'LAST')):
            # derived Clone impls and constant initialisers are checked by Verus but are not obligations of any property
            continue
        name = '%s::%s' % (unit, short)
        if ok:
            obs.append(Ob(name, 'verus', DISCHARGED, t, kind=kind, functions=[short]))
        else:
            rel = [b for b in blocks if re.search(r'\b%s\b' % re.escape(short.split('::')[-1]), b)]
            txt = '\n'.join(rel) if rel else diag
            status = FAILED
            det = 'verus: obligation not discharged'
            if 'rlimit' in txt or 'Resource limit' in txt or 'resource limit' in diag.lower():
                status = UNDECIDED
                det = 'verus: resource limit (rlimit) exceeded'
            obs.append(Ob(name, 'verus', status, t, detail=det, kind=kind, functions=[short], output=txt[-6000:]))
    n_err = vr.get('errors', 0)
    if n_err and not any(o.status != DISCHARGED for o in obs):
        obs.append(Ob('%s::verus' % unit, 'verus', UNDECIDED, detail='verus reported errors that could not be attributed',
                      output=diag[-6000:]))
    info['verified'] = vr.get('verified')
    info['errors'] = n_err
    return obs, info
