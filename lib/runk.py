"""debug helper: python3 lib/runk.py <features> <harness-substring>..."""
import sys
sys.path.insert(0, '/verif/lib')
import registry, kani_engine as k
feat = sys.argv[1]
seen = {}
for p in registry.PROPS.values():
    for h in p.get('kani', []):
        if any(s in h.name for s in sys.argv[2:]) and (h.features or '') == feat:
            seen[h.name] = h
r = k.run_group(feat, list(seen.values()), jobs=8)
obs = r[0] if isinstance(r, tuple) else r
for o in obs:
    if hasattr(o, 'status'):
        print(o.status, o.name, round(o.time_s, 1), o.detail[:300])
        if o.status != 'discharged':
            print((o.output or '')[-4000:])
    else:
        print(o)
