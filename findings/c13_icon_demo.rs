use ctap_types::webauthn::PublicKeyCredentialUserEntity;
use cbor_smol::cbor_deserialize;

fn user_with_icon(len: usize) -> Vec<u8> {
    // {"id": h'01', "icon": "<len x 'a'>"}
    let mut m = vec![0xA2, 0x62, b'i', b'd', 0x41, 0x01, 0x64, b'i', b'c', b'o', b'n'];
    if len < 24 { m.push(0x60 | len as u8) } else if len < 256 { m.extend([0x78, len as u8]) } else { m.extend([0x79, (len >> 8) as u8, len as u8]) }
    m.extend(std::iter::repeat(b'a').take(len));
    m
}

#[test]
fn icon_128_is_kept() {
    let u: PublicKeyCredentialUserEntity = cbor_deserialize(&user_with_icon(128)).unwrap();
    assert_eq!(u.icon.unwrap().len(), 128);
}

#[test]
fn icon_129_is_dropped_not_fatal() {
    // C13: a user icon longer than 128 bytes is reported absent without failing the request; C04: never panics
    let u: PublicKeyCredentialUserEntity = cbor_deserialize(&user_with_icon(129)).unwrap();
    assert!(u.icon.is_none());
}

#[test]
fn icon_300_is_dropped_not_fatal() {
    let u: PublicKeyCredentialUserEntity = cbor_deserialize(&user_with_icon(300)).unwrap();
    assert!(u.icon.is_none());
}
