#![cfg(feature = "get-info-full")]
use ctap_types::ctap2::get_info::{Certifications, CtapOptions};
use cbor_smol::{cbor_deserialize, cbor_serialize};

fn canon_lt(a: &[u8], b: &[u8]) -> bool { (a.len(), a) < (b.len(), b) }

/// text keys of a one-level CBOR map with short text keys and one-byte values
fn keys(mut b: &[u8]) -> Vec<Vec<u8>> {
    let n = (b[0] & 0x1f) as usize; b = &b[1..];
    let mut out = vec![];
    for _ in 0..n { let l = (b[0] & 0x1f) as usize; out.push(b[1..1 + l].to_vec()); b = &b[1 + l + 1..]; }
    out
}

#[test]
fn ctap_options_canonical() {
    let mut o = CtapOptions::default();
    o.pin_uv_auth_token = Some(true);
    o.set_min_pin_length = Some(true);
    let mut buf = [0u8; 128];
    let ser = cbor_serialize(&o, &mut buf).unwrap();
    println!("{:02x?}", ser);
    let k = keys(ser);
    for w in k.windows(2) { assert!(canon_lt(&w[0], &w[1]), "{:?} before {:?}", String::from_utf8_lossy(&w[0]), String::from_utf8_lossy(&w[1])); }
}

#[test]
fn certifications_canonical() {
    // canonical input {"FIDO": 1, "FIPS-CMVP-2": 2}
    let canonical = b"\xa2\x64FIDO\x01\x6bFIPS-CMVP-2\x02";
    let c: Certifications = cbor_deserialize(canonical).unwrap();
    let mut buf = [0u8; 128];
    let ser = cbor_serialize(&c, &mut buf).unwrap();
    println!("{:02x?}", ser);
    assert_eq!(ser, canonical, "re-encoding a value decoded from canonical bytes must reproduce the bytes");
}
